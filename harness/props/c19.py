"""C19 - serialisation round-trips: JSON and netCDF (netCDF half against the vendored stand-in)."""
import copy, itertools, json, math, os, random, shutil, warnings
from fractions import Fraction
import numpy as np
import core, gen
from core import da, Axis, DimArray, Dataset
from .base import Prop
from .c06 import lab_key
from .c08 import nan_pattern

NCDIR = os.path.join(core.WORK, "nc")

ATTR_VALUES = ["K", 3, 2.5, [1, 2, 3], [1.5, 2.5], "long text with spaces"]


def attrs_for(rng, n=2):
    keys = rng.sample(["units", "long_name", "scale", "levels", "history", "comment", "_source", "_levels", "Conventions", "valid_min"], rng.randint(0, n))
    return {k: rng.choice(ATTR_VALUES) for k in keys}


# attribute values netCDF can hold beyond str / int / float / list: a flag (stored as an integer: equal under Python's
# ==), a 1-d numeric ndarray, missing_value (also handed to createVariable as fill_value); values it cannot hold
# (None, dict: dropped with a warning) are encoded so that the case stays JSON
RICH_VALUES = [True, False, {"__nd__": [1.5, 2.5, 4.0], "k": "f"}, {"__nd__": [3, 1, 2], "k": "i"}]
UNREPRESENTABLE = [None, {"__dict__": {"a": 1, "b": [1, "x"]}}]


def dec_attr(v):
    """case encoding of a metadata value -> python value"""
    if isinstance(v, dict) and "__nd__" in v:
        return np.array(v["__nd__"], dtype=np.float64 if v.get("k") == "f" else np.int64)
    if isinstance(v, dict) and "__dict__" in v:
        return copy.deepcopy(v["__dict__"])
    return copy.deepcopy(v)


def nc_representable(v):
    return not (v is None or isinstance(v, dict))


def nc_attrs(d):
    """the part of (canonical) metadata that a netCDF attribute can hold"""
    return {k: v for k, v in dict(d or {}).items() if nc_representable(v)}


def rich_attrs(rng, base, vkind=None):
    """add the less common kinds of metadata to a generated dict (in place, returns it)"""
    if rng.random() < 0.25:
        base[rng.choice(["flag", "is_masked"])] = rng.choice(RICH_VALUES[:2])
    if rng.random() < 0.25:
        base[rng.choice(["bounds", "weights"])] = copy.deepcopy(rng.choice(RICH_VALUES[2:]))
    if rng.random() < 0.15:
        # set BEFORE the others: it may be dropped, the others may not
        first = {rng.choice(["nothing", "lookup"]): copy.deepcopy(rng.choice(UNREPRESENTABLE))}
        first.update(base)
        base.clear(); base.update(first)
    if vkind in ("f", "i", "i32") and rng.random() < 0.2:
        base["missing_value"] = -999.0 if vkind == "f" else -999
    return base


def canon_attr(v):
    if isinstance(v, np.ndarray):
        return [canon_attr(x) for x in v.tolist()]
    if isinstance(v, (list, tuple)):
        return [canon_attr(x) for x in v]
    if isinstance(v, (np.integer,)):
        return int(v)
    if isinstance(v, (np.floating,)):
        return float(v)
    if isinstance(v, dict):
        return {k: canon_attr(x) for k, x in v.items()}
    return v


def canon_attrs(d):
    return {k: canon_attr(v) for k, v in dict(d).items()}


def obs(a):
    o = core.obs_array(a)
    if isinstance(a, DimArray):
        o["attrs_py"] = canon_attrs(a.attrs)
        o["axes_attrs"] = [canon_attrs(ax.attrs) for ax in a.axes]
        o["dtype"] = a.values.dtype.kind
    return o


def gen_ds(rng, netcdf3=False, rich=False, lkinds=None, vkinds=None):
    """`rich`: also bool / ndarray / unrepresentable / missing_value metadata; `lkinds` / `vkinds` override the
    label and value kinds to draw from"""
    ndims = rng.randint(1, 3)
    dims = rng.sample(gen.DIMS, ndims)
    axes = {}
    for d in dims:
        kind = rng.choice(lkinds) if lkinds else (rng.choice(["i", "f"]) if netcdf3 else rng.choice(["i", "f", "O"]))
        ax = gen.clean(gen.rand_axis(rng, d, kind=kind, n=rng.randint(1, 3)))
        if kind == "O" and ax["labels"] and rng.random() < 0.2:
            # string labels that LOOK like dates without being full dates (a month 'YYYY-MM', a pair 'NN-NN'): they are
            # strings and come back as strings (full 'YYYY-MM-DD' dates are read back as datetime64 by design)
            pool = rng.choice([["2001-05", "2001-06", "2001-07"], ["01-02", "03-04", "05-06"], ["1999-12", "2000-01", "2000-02"]])
            ax["labels"] = [["s", x] for x in pool[:len(ax["labels"])]]
            if rng.random() < 0.5:
                ax["labels"].reverse()
        ax["attrs_py"] = attrs_for(rng, 1)
        if rich:
            rich_attrs(rng, ax["attrs_py"])
        axes[d] = ax
    nv = rng.randint(0, 4)
    vars_ = {}
    for k in range(nv):
        sub = [d for d in dims if rng.random() < 0.6]
        rng.shuffle(sub)
        vk = rng.choice(vkinds) if vkinds else rng.choice(["f", "f", "i", "i32"] if netcdf3 else ["f", "f", "i", "i32", "O"])
        shape = [len(axes[d]["labels"]) for d in sub]
        vars_["v%d" % k] = {"dims": sub, "vkind": vk, "attrs_py": attrs_for(rng), "nan_at": nan_pattern(rng, shape, rng.choice(["none", "some"])) if vk == "f" and sub else []}
        if rich:
            rich_attrs(rng, vars_["v%d" % k]["attrs_py"], vk)
    used = [d for d in dims if any(d in v["dims"] for v in vars_.values())]
    out = {"axes": {d: axes[d] for d in used}, "dims": used, "vars": vars_, "attrs": attrs_for(rng)}
    if rich:
        rich_attrs(rng, out["attrs"])
    return out


def build_axis(ad):
    ax = core.build_axis(dict(ad, attrs_py={}))
    for k, v in ad.get("attrs_py", {}).items():
        ax.attrs[k] = dec_attr(v)
    return ax


def build_var(dd, key, base=0):
    v = dd["vars"][key]
    axes = []
    for d in v["dims"]:
        axes.append(build_axis(dd["axes"][d]))
    shape = tuple(len(dd["axes"][d]["labels"]) for d in v["dims"])
    kind = "i" if v["vkind"] == "i32" else v["vkind"]
    vals = core.make_values(shape, kind, base, v.get("nan_at", ()))
    if v["vkind"] == "i32":
        vals = vals.astype(np.int32)
    a = DimArray(vals, axes=axes)
    for k2, x in v.get("attrs_py", {}).items():
        a.attrs[k2] = dec_attr(x)
    return a


def build_ds(dd, base=0):
    ds = Dataset()
    for i, key in enumerate(dd["vars"]):
        ds[key] = build_var(dd, key, base + i)
    for ad in dd.get("extra_axes", []):
        ds.axes.append(build_axis(ad))          # a standalone axis: no variable uses it
    for k, v in dd["attrs"].items():
        ds.attrs[k] = dec_attr(v)
    return ds


def obs_dataset(ds):
    out = {"keys": list(ds.keys()), "dims": list(ds.dims), "attrs": canon_attrs(ds.attrs), "vars": {},
           "axes": {ax.name: {"labels": [core.enc_label(v) for v in ax.values.tolist()], "attrs": canon_attrs(ax.attrs)} for ax in ds.axes}}
    for k in ds.keys():
        out["vars"][k] = obs(ds[k])
    return out


class C19(Prop):
    id = "C19"
    theorems = ["flat_nest", "inferShape_nest", "json_roundtrip", "nc_roundtrip", "nc_append_keeps", "nc_writeVar_dims"]
    rule = ("JSON: arrays of rank 0-3 (float with NaN, int, str values), int/float/str labels in any order, str/int/float/"
            "list/nested-dict metadata; from_json(to_json(a)) and the structure of the JSON text. netCDF (vendored stand-in "
            "for netCDF4): Datasets of 0-4 variables (0-d to 3-d; float with NaN, int64, int32, str) over shared and unshared "
            "dimensions, metadata on the three levels (str, int, float, list, flag, 1-d ndarray, missing_value; None / dict "
            "entries may be dropped); the file is created by Dataset.write_nc, by DimArray.write_nc variable by variable, "
            "through an open netCDF4 handle or open_nc(f, 'w'), with mode 'w' / 'w-' / 'a+', clobber=, over an existing file; "
            "then variables are appended by DimArray.write_nc(mode='a' / 'a+'), Dataset.write_nc(mode='a' / 'a+'), a handle, "
            "open_nc(f, 'a')[name] = array: new names, a new dimension, labels differing from the file's, an existing name; "
            "writes that must be refused (existing file, 'w-' / clobber=False); NETCDF4, NETCDF4_CLASSIC, NETCDF3_CLASSIC, "
            "NETCDF3_64BIT. JSON also with to_json(**kwargs), to_jsondict / from_jsondict, axis metadata present. "
            "Non-trivial = at least one variable of rank >= 1; distinct = canonical JSON")
    assumptions = ["PARTIAL (netCDF half): the vendored stand-in's fidelity to netCDF4-python / libnetcdf (type mapping, "
                   "masked arrays, vlen strings, unlimited dimensions, index rules) is assumed and cannot be checked here"]

    def mirrors(self):
        import sys as _s
        ncio = _s.modules.get("dimarray.io.nc")
        from dimarray.core import dimarraycls
        d = _s.modules["dimarray.dataset"]
        out = {"to_jsondict": dimarraycls.DimArray.to_jsondict, "from_jsondict": dimarraycls.DimArray.from_jsondict,
               "Dataset.write_nc": d.Dataset.write_nc, "DimArray.write_nc": dimarraycls.DimArray.write_nc}
        if ncio:
            out.update({"DatasetOnDisk.write": ncio.DatasetOnDisk.write, "DatasetOnDisk.read": ncio.DatasetOnDisk.read,
                        "AxesOnDisk.append": ncio.AxesOnDisk.append, "AxisOnDisk.__setitem__": ncio.AxisOnDisk.__setitem__,
                        "maybe_encode_values": ncio.maybe_encode_values, "_maybe_open_file": ncio._maybe_open_file,
                        "DimArrayOnDisk.write": ncio.DimArrayOnDisk.write, "AttrsOnDisk.__setitem__": ncio.AttrsOnDisk.__setitem__})
        return out

    FORMATS = ["NETCDF4"] * 4 + ["NETCDF3_CLASSIC"] * 2 + ["NETCDF3_64BIT", "NETCDF4_CLASSIC"]
    APPEND_HOWS = ["dimarray_a", "dimarray_a+", "open_setitem", "dataset_a", "dataset_a+", "handle_a"]
    # TODO(defect): DimArray.write_nc(f) without name= does not take the name from the array's `name` attribute
    # (DatasetOnDisk.write looks the attribute up on the on-disk dataset, not on the array): ValueError.  The stratum
    # is generated only when this is switched on.
    NAME_FROM_ATTRS = True
    # TODO(defect): Dataset.write_nc(f, mode='w-') on an existing file overwrites it (its clobber parameter defaults to
    # True, so _maybe_open_file never turns 'w-' into clobber=False; DimArray.write_nc, default None, refuses).  The
    # form is generated only when this is switched on.
    DATASET_WMINUS = True

    def gen_json(self, rng):
        rank = rng.choice([0, 1, 2, 2, 3])
        arr = gen.rand_array(rng, rank=rank, maxn=3, minn=0 if rng.random() < 0.1 else 1)
        arr["vkind"] = rng.choice(["f", "f", "i", "O"])
        shape = [len(a["labels"]) for a in arr["axes"]]
        if 0 in shape[:-1]:
            return None     # nested lists cannot express e.g. shape (0, 3): not JSON-representable (Serial.Representable)
        arr["nan_at"] = nan_pattern(rng, shape, rng.choice(["none", "some"])) if arr["vkind"] == "f" else []
        meta = attrs_for(rng, 3)
        if rng.random() < 0.3:
            meta["nested"] = {"a": 1, "b": [1, "x"]}
        if rng.random() < 0.35:
            # JSON-representable values that are falsy in Python
            for k in rng.sample(["zero", "fzero", "empty", "nolist", "flag"], rng.randint(1, 3)):
                meta[k] = {"zero": 0, "fzero": 0.0, "empty": "", "nolist": [], "flag": False}[k]
        if rng.random() < 0.25:
            # keys that are also names of attributes or methods of the class: they are metadata all the same
            for k in rng.sample(["shape", "T", "size", "mean", "labels"], rng.randint(1, 2)):
                meta[k] = rng.choice(["round", 7, [1, 2]])
        c = {"op": "json", "array": gen.clean(arr), "meta": meta}
        if rng.random() < 0.3:
            # an entry that json cannot represent, set BEFORE the others: it may be dropped, the others may not
            c["unrepresentable_first"] = rng.choice(["ndarray", "set", "float32"])
        # entry points: the text, the text with json.dumps options, the dictionary form directly / through a text
        c["via"] = rng.choice(["json", "json", "json", "json_kwargs", "jsondict", "jsondict_text"])
        if c["via"] == "json_kwargs":
            c["kwargs"] = rng.choice([{"indent": 2}, {"sort_keys": True}, {"separators": [", ", ": "]},
                                      {"indent": 1, "sort_keys": True}, {"separators": [",", ":"], "ensure_ascii": False}])
        if rng.random() < 0.3:
            for ax in c["array"]["axes"]:
                ax["attrs_py"] = attrs_for(rng, 2)
        return c

    def gen_first(self, rng, dd):
        """how the file comes into being"""
        r = rng.random()
        if r < 0.5 or not dd["vars"]:
            how = "dataset"
        elif r < 0.72:
            how = "dimarray_w"          # variable by variable: DimArray.write_nc(mode='w') then mode='a'
        elif r < 0.82:
            how = "handle_dataset"      # Dataset.write_nc(<open netCDF4.Dataset>)
        elif r < 0.92:
            how = "handle_dimarray"     # DimArray.write_nc(<open netCDF4.Dataset>, name), closed by the caller
        else:
            how = "open_w"              # open_nc(f, 'w')[name] = array
        st = {"how": how}
        if how in ("dataset", "dimarray_w"):
            st["mode"] = rng.choice(["w", "w", "w", "w-", "a+"])          # 'w-' / 'a+' on a file that does not exist
            if st["mode"] == "w":
                st["clobber"] = rng.choice([None, None, True])
                st["preexisting"] = rng.random() < 0.35                   # overwrite of an existing file
            if how == "dimarray_w" and self.NAME_FROM_ATTRS and rng.random() < 0.3:
                st["name_from_attrs"] = True
        elif how == "open_w":
            st["preexisting"] = rng.random() < 0.3
        return st

    def gen_nc(self, rng, i, tier):
        fmt = rng.choice(self.FORMATS)
        if fmt == "NETCDF4_CLASSIC":
            # classic data model in an HDF5 file: no variable-length strings, no 64-bit integers (dimarray narrows
            # int64 for the two NETCDF3 formats only) => float labels, float / int32 values
            dd = gen_ds(rng, netcdf3=True, rich=True, lkinds=["f"], vkinds=["f", "f", "i32"])
            akinds, lkinds = ["f", "i32"], ["f"]
        elif fmt.startswith("NETCDF3"):
            dd = gen_ds(rng, netcdf3=True, rich=True)
            akinds, lkinds = ["f", "i"], ["i", "f"]
        else:
            dd = gen_ds(rng, rich=True)
            akinds, lkinds = ["f", "i", "O"], ["i", "f", "O"]
        steps = [self.gen_first(rng, dd)]
        if steps[0]["how"] == "dataset" and rng.random() < 0.15:
            # an axis of the Dataset that none of its variables uses (ds.axes.append): it is written and read back too
            free = [d for d in gen.DIMS + ["t"] if d not in dd["dims"]]
            kind = rng.choice(lkinds)
            ax = gen.clean(gen.rand_axis(rng, free[0], kind=kind, n=rng.randint(1, 3)))
            ax["attrs_py"] = attrs_for(rng, 1)
            dd["extra_axes"] = [ax]
        present = {k: v for k, v in dd["vars"].items()}
        # append more variables by the other entry points
        for j in range(rng.randint(0, 2 if tier == "quick" else 3)):
            if rng.random() < 0.12:
                # a write that must be refused: the file exists
                st = {"how": rng.choice(["refuse_w-", "refuse_noclobber"]), "by": rng.choice(["dataset", "dimarray"])}
                if st["how"] == "refuse_w-" and st["by"] == "dataset" and not self.DATASET_WMINUS:
                    st["by"] = "dimarray"
                steps.append(st)
                continue
            how = rng.choice(self.APPEND_HOWS)
            sub = [d for d in dd["dims"] if rng.random() < 0.6]
            vk = rng.choice(akinds)
            st = {"how": how, "what": "new", "key": "w%d" % j, "dims": sub, "vkind": vk, "attrs_py": rich_attrs(rng, attrs_for(rng), vk)}
            r = rng.random()
            if r < 0.2:
                # the variable brings a dimension that the file does not have yet
                t = "t%d" % j
                ax = gen.clean(gen.rand_axis(rng, t, kind=rng.choice(lkinds), n=rng.randint(1, 3)))
                ax["attrs_py"] = rich_attrs(rng, attrs_for(rng, 1))
                st["what"] = "newdim"
                st["new_axes"] = {t: ax}
                st["dims"] = sub + [t]
                rng.shuffle(st["dims"])
            elif r < 0.35 and sub:
                # labels that differ from the ones in the file along one dimension (same length)
                d = rng.choice(sub)
                ax = dd["axes"][d]
                labs = list(ax["labels"])
                if len(labs) > 1 and rng.random() < 0.5:
                    labs = labs[1:] + labs[:1]
                else:
                    labs[rng.randrange(len(labs))] = gen.absent_label(rng, dict(ax, labels=labs))
                st["what"] = "difflabels"
                st["labels_override"] = {d: labs}
            elif r < 0.55 and present:
                # a name that the file already has: same dimensions and kind, new values
                key = rng.choice(sorted(present))
                p = present[key]
                st.update({"what": "existing", "key": key, "dims": list(p["dims"]), "vkind": p["vkind"],
                           "attrs_py": copy.deepcopy(p["attrs_py"]), "base": 70 + j})
                if p.get("new_axes"):
                    st["use_axes"] = p["new_axes"]
            if how in ("dimarray_a", "dimarray_a+", "dataset_a", "dataset_a+"):
                # clobber= said explicitly next to an appending mode (drawn from a stream of its own): appending to an
                # existing file keeps what is there whatever is said about overwriting
                cl = random.Random("cl%d:%d:%s" % (i, j, how)).choice([None, None, True, False])
                if cl is not None:
                    st["clobber"] = cl
            present[st["key"]] = {"dims": st["dims"], "vkind": st["vkind"], "attrs_py": st["attrs_py"],
                                  "new_axes": st.get("new_axes") or st.get("use_axes")}
            steps.append(st)
        return {"op": "nc", "ds": dd, "format": fmt, "steps": steps, "seed": i}

    def gen(self, rng, tier):
        n = 500 if tier == "quick" else 10000
        for i in range(n):
            if rng.random() < 0.4:
                c = self.gen_json(rng)
                if c is not None:
                    yield c
            else:
                yield self.gen_nc(rng, i, tier)

    # ------------------------------------------------------------ implementation side
    def impl_json(self, c):
        a = core.build_array(c["array"], 0)
        if c.get("unrepresentable_first"):
            a.attrs["weights"] = {"ndarray": np.arange(3.), "set": {1, 2}, "float32": np.float32(1.5)}[c["unrepresentable_first"]]
        for k, v in c["meta"].items():
            a.attrs[k] = copy.deepcopy(v)
        before = obs(a)
        via = c.get("via", "json")

        def text_of(s):
            t = json.loads(s)
            return {"dims": t.get("dims"), "shape": t.get("shape"), "ndim": t.get("ndim"),
                    "labels": [[core.enc_label(x) for x in l] for l in t.get("labels", [])], "keys": sorted(t)}

        def run():
            if via == "jsondict":
                d = a.to_jsondict()
                b = DimArray.from_jsondict(d)
                return {"text": text_of(json.dumps(d)), "back": obs(b)}
            if via == "jsondict_text":
                d = json.loads(json.dumps(a.to_jsondict()))
                b = DimArray.from_jsondict(d)
                return {"text": text_of(json.dumps(d)), "back": obs(b)}
            kw = dict(c.get("kwargs") or {})
            if "separators" in kw:
                kw["separators"] = tuple(kw["separators"])
            s = a.to_json(**kw)
            if not isinstance(s, str):
                raise TypeError("to_json did not return a str")
            b = DimArray.from_json(s)
            order = [k for k, _ in json.loads(s, object_pairs_hook=lambda kv: kv)]
            return {"text": text_of(s), "back": obs(b), "multiline": "\n" in s, "key_order": order,
                    "spaced": '": ' in s}
        out = core.guarded(run)
        out["input"] = before
        if obs(a) != before:
            out["operand_modified"] = True
        return out

    def impl(self, c):
        with warnings.catch_warnings():
            warnings.simplefilter("ignore")
            if c["op"] == "json":
                return self.impl_json(c)
            import netCDF4
            os.makedirs(NCDIR, exist_ok=True)
            path = os.path.join(NCDIR, "c19_%d_%d.nc" % (os.getpid(), c["seed"]))
            if os.path.exists(path):
                os.remove(path)
            dd = c["ds"]
            fmt = c["format"]
            ds = build_ds(dd)
            before = obs_dataset(ds)
            expected = dict(before["vars"])
            expected_axes = dict(before["axes"])
            first = c["steps"][0]
            by_variable = first["how"] in ("dimarray_w", "handle_dimarray")       # these cannot carry dataset-level metadata
            ds_attrs = {} if by_variable else dict(before["attrs"])
            notes = {}
            expected_first = {}

            def write_first():
                if first.get("preexisting"):
                    old = Dataset({"old": DimArray(np.arange(2.), axes=[Axis(np.array([7, 8]), "x")]),
                                   "old2": DimArray(np.arange(3.), axes=[Axis(np.array([1.5, 2.5, 3.5]), "q")])})
                    old.attrs["old_attr"] = "was here"
                    old.write_nc(path)
                kw = {}
                if first.get("mode"):
                    kw["mode"] = first["mode"]
                if first.get("clobber") is not None:
                    kw["clobber"] = first["clobber"]
                how = first["how"]
                if how == "dataset":
                    ds.write_nc(path, format=fmt, **kw)
                elif how == "dimarray_w":
                    for n, k in enumerate(ds.keys()):
                        if n == 0 and first.get("name_from_attrs"):
                            a = ds[k].copy()
                            a.name = k
                            expected[k] = obs(a)
                            a.write_nc(path, format=fmt, **kw)
                        elif n == 0:
                            ds[k].write_nc(path, k, format=fmt, **kw)
                        else:
                            ds[k].write_nc(path, k, mode="a")
                elif how == "handle_dataset":
                    h = netCDF4.Dataset(path, "w", format=fmt)
                    ds.write_nc(h)
                    if h.isopen():
                        h.close()
                elif how == "handle_dimarray":
                    h = netCDF4.Dataset(path, "w", format=fmt)
                    for k in ds.keys():
                        ds[k].write_nc(h, k)
                    notes["handle_left_open"] = bool(h.isopen())
                    h.close()
                elif how == "open_w":
                    f = da.open_nc(path, "w", format=fmt)
                    for k in ds.keys():
                        f[k] = ds[k]
                    f.attrs.update(ds.attrs)
                    f.close()
                else:
                    raise ValueError(how)

            def run():
                write_first()
                expected_first.update(expected)         # (later steps may replace a variable: `expected` then describes the final file)
                after_first = obs_dataset(da.read_nc(path))
                refusals = []
                for st in c["steps"][1:]:
                    if st["how"].startswith("refuse"):
                        other = Dataset({"zz": DimArray(np.arange(2.), axes=[Axis(np.array([1, 2]), "x")])})
                        kw = {"mode": "w-"} if st["how"] == "refuse_w-" else {"mode": "w", "clobber": False}
                        try:
                            if st["by"] == "dataset":
                                other.write_nc(path, **kw)
                            else:
                                other["zz"].write_nc(path, "zz", **kw)
                            refusals.append(False)
                        except Exception:
                            refusals.append(True)
                        continue
                    axes = dict(dd["axes"])
                    axes.update(st.get("new_axes") or {})
                    axes.update(st.get("use_axes") or {})
                    for d, labs in (st.get("labels_override") or {}).items():
                        axes[d] = dict(axes[d], labels=labs)
                    ddv = {"axes": axes, "vars": {st["key"]: {"dims": st["dims"], "vkind": st["vkind"], "attrs_py": st["attrs_py"]}}}
                    a = build_var(ddv, st["key"], st.get("base", 50))
                    a_before = obs(a)
                    how = st["how"]
                    ckw = {"clobber": st["clobber"]} if st.get("clobber") is not None else {}
                    if how == "dimarray_a":
                        a.write_nc(path, st["key"], mode="a", **ckw)
                    elif how == "dimarray_a+":
                        a.write_nc(path, st["key"], mode="a+", **ckw)
                    elif how in ("dataset_a", "dataset_a+"):
                        d2 = Dataset({st["key"]: a})
                        d2.attrs["appended_" + st["key"]] = "yes"          # dataset-level metadata of the appended dataset
                        ds_attrs["appended_" + st["key"]] = "yes"
                        d2.write_nc(path, mode=how[8:], **ckw)
                    elif how == "handle_a":
                        h = netCDF4.Dataset(path, "a")
                        a.write_nc(h, st["key"])
                        h.close()
                    else:
                        f = da.open_nc(path, mode="a")
                        f[st["key"]] = a
                        f.close()
                    exp = obs(a)
                    for d in (st.get("new_axes") or {}):
                        ax = a.axes[d]
                        expected_axes[d] = {"labels": [core.enc_label(v) for v in ax.values.tolist()], "attrs": canon_attrs(ax.attrs)}
                    for d in (st.get("labels_override") or {}):
                        # the file keeps the labels it has
                        exp["axes"][a.dims.index(d)]["labels"] = expected_axes[d]["labels"]
                    # rewriting a variable updates its metadata on disk, entries under other names stay (here: the `name`
                    # entry of a first write that took the variable name from it)
                    for kk, vv in expected.get(st["key"], {}).get("attrs_py", {}).items():
                        exp["attrs_py"].setdefault(kk, vv)
                    expected[st["key"]] = exp
                    if obs(a) != a_before:
                        raise AssertionError("write modified the in-memory array")
                return {"first": after_first, "final": obs_dataset(da.read_nc(path)), "refusals": refusals, "notes": notes}
            out = core.guarded(run)
            out["input"] = before
            out["expected_vars"] = expected
            out["expected_first_vars"] = expected_first
            out["expected_axes"] = expected_axes
            out["expected_ds_attrs"] = ds_attrs
            out["first_ds_attrs"] = {} if by_variable else dict(before["attrs"])
            if obs_dataset(ds) != before:
                out["operand_modified"] = True
            for p in (path, path + ".tmp"):
                try:
                    os.remove(p)
                except OSError:
                    pass
            return out

    def request(self, c):
        return {"op": "union", "a": {"name": "x", "kind": "i", "labels": []}, "b": {"name": "x", "kind": "i", "labels": []}, "join": "outer"}

    def cmp_var(self, got, want, tag, netcdf3=False):
        bad = []
        if got["dims"] != want["dims"]:
            bad.append(tag + ".dims")
        if got["values"] != want["values"]:
            bad.append(tag + ".values")
        if got.get("dtype") != want.get("dtype"):
            bad.append(tag + ".dtype_kind")
        if [(x["name"], [lab_key(l) for l in x["labels"]]) for x in got["axes"]] != [(x["name"], [lab_key(l) for l in x["labels"]]) for x in want["axes"]]:
            bad.append(tag + ".labels")
        # (metadata that a netCDF attribute cannot hold - None, dict - is outside the statement: neither required nor forbidden)
        if nc_attrs(got.get("attrs_py")) != nc_attrs(want.get("attrs_py")):
            bad.append(tag + ".attrs")
        if [nc_attrs(x) for x in got.get("axes_attrs", [])] != [nc_attrs(x) for x in want.get("axes_attrs", [])]:
            bad.append(tag + ".axes_attrs")
        return bad

    def cmp_axes(self, got_axes, want_axes, tag):
        bad = []
        for d, ax in want_axes.items():
            if d not in got_axes:
                bad.append(tag + "axis_missing")
            else:
                if [lab_key(l) for l in got_axes[d]["labels"]] != [lab_key(l) for l in ax["labels"]]:
                    bad.append(tag + "axis_labels")
                if nc_attrs(got_axes[d]["attrs"]) != nc_attrs(ax["attrs"]):
                    bad.append(tag + "axis_attrs")
        if sorted(got_axes) != sorted(want_axes):
            bad.append(tag + "dims_set")
        return bad

    @staticmethod
    def skind(k):
        return "s" if k in ("O", "U", "S") else k

    def judge(self, c, io, ans):
        prop_bad = []
        if "err" in io:
            prop_bad.append("outcome:" + io["err"])
        elif c["op"] == "json":
            o = io["ok"]
            inp = io["input"]
            back = o["back"]
            for k in ("dims", "shape", "values"):
                if back[k] != inp[k]:
                    prop_bad.append("json." + k)
            if [(x["name"], [lab_key(l) for l in x["labels"]]) for x in back["axes"]] != [(x["name"], [lab_key(l) for l in x["labels"]]) for x in inp["axes"]]:
                prop_bad.append("json.labels")
            # "equal data": numbers stay the numbers they were (int / float), text stays text - wherever there is a value to tell
            if inp["values"] and self.skind(back.get("dtype")) != self.skind(inp.get("dtype")):
                prop_bad.append("json.values_kind")
            for x, y in zip(back["axes"], inp["axes"]):
                if y["labels"] and self.skind(x["kind"]) != self.skind(y["kind"]):
                    prop_bad.append("json.labels_kind")
            want_attrs = dict(inp.get("attrs_py") or {})
            got_attrs = dict(back.get("attrs_py") or {})
            if c.get("unrepresentable_first"):
                want_attrs.pop("weights", None); got_attrs.pop("weights", None)     # representable metadata is what must survive
            if got_attrs != want_attrs:
                prop_bad.append("json.attrs")
            t = o["text"]
            if t.get("dims") != inp["dims"] or t.get("shape") != inp["shape"] or t.get("ndim") != len(inp["dims"]):
                prop_bad.append("json.text")
            if [[lab_key(l) for l in ls] for ls in t.get("labels", [])] != [[lab_key(l) for l in x["labels"]] for x in inp["axes"]]:
                prop_bad.append("json.text_labels")
            # to_json(**kwargs): "passed to json.dumps" - the options show in the text
            kw = c.get("kwargs") or {}
            if "key_order" in o:
                if kw.get("sort_keys") and o["key_order"] != sorted(o["key_order"]):
                    prop_bad.append("json.kwargs.sort_keys")
                if "indent" in kw and not o["multiline"]:
                    prop_bad.append("json.kwargs.indent")
                if "separators" in kw and o["spaced"] != (kw["separators"][1] == ": "):
                    prop_bad.append("json.kwargs.separators")
        else:
            o = io["ok"]
            inp = io["input"]
            n3 = c["format"].startswith("NETCDF3")
            # the file as first written
            first = o["first"]
            if sorted(first["keys"]) != sorted(inp["keys"]):
                prop_bad.append("nc.keys")
            else:
                for k in inp["keys"]:
                    prop_bad += self.cmp_var(first["vars"][k], io["expected_first_vars"][k] if c["steps"][0].get("name_from_attrs") else inp["vars"][k], "nc." + k, n3)
            if nc_attrs(first["attrs"]) != nc_attrs(io.get("first_ds_attrs", inp["attrs"])):
                prop_bad.append("nc.dataset_attrs")
            prop_bad += self.cmp_axes(first["axes"], inp["axes"], "nc.")
            # appended variables; what was there is kept
            final = o["final"]
            for k, want in io["expected_vars"].items():
                if k not in final["vars"]:
                    prop_bad.append("nc.append_lost:" + k)
                else:
                    prop_bad += self.cmp_var(final["vars"][k], want, "nc.final." + k, n3)
            if sorted(final["keys"]) != sorted(io["expected_vars"]):
                prop_bad.append("nc.final.keys")
            if nc_attrs(final["attrs"]) != nc_attrs(io.get("expected_ds_attrs", inp["attrs"])):
                prop_bad.append("nc.final.dataset_attrs")
            prop_bad += self.cmp_axes(final["axes"], io.get("expected_axes", inp["axes"]), "nc.final.")
            # mode='w-' / clobber=False on a file that exists: refused (and, above, everything is still there)
            if not all(o.get("refusals", [])):
                prop_bad.append("nc.existing_file_not_refused")
        if io.get("operand_modified"):
            prop_bad.append("operand_modified")
        if not prop_bad:
            return None
        return {"kind": "P", "differs": sorted(set(prop_bad)), "msg": io.get("msg")}

    def known(self, c, io, ans, mm, open_findings):
        return None

    def nontrivial(self, c):
        if c["op"] == "json":
            return len(c["array"]["axes"]) >= 1
        return any(v["dims"] for v in c["ds"]["vars"].values())

    def features(self, c, io):
        f = {"outcome": "err:" + io["err"] if "err" in io else "ok", "op": c["op"]}
        if c["op"] == "nc":
            f["format"] = c["format"]; f["nvars"] = len(c["ds"]["vars"]); f["nsteps"] = len(c["steps"])
            st0 = c["steps"][0]
            f["first"] = st0["how"] + (":" + st0["mode"] if st0.get("mode") else "") + (":clobber" if st0.get("clobber") else "")
            f["first.preexisting_file"] = bool(st0.get("preexisting"))
            for st in c["steps"][1:]:
                f["how:" + st["how"]] = 1
                if st.get("what"):
                    f["append:" + st["what"]] = 1
                    if st.get("clobber") is not None:
                        f["append.clobber:%s" % st["clobber"]] = 1
            for v in c["ds"]["vars"].values():
                f["vkind:" + v["vkind"]] = 1
            metas = [c["ds"]["attrs"]] + [v["attrs_py"] for v in c["ds"]["vars"].values()] + [a.get("attrs_py", {}) for a in c["ds"]["axes"].values()]
            metas += [st.get("attrs_py", {}) for st in c["steps"][1:]]
            for m in metas:
                for k, v in m.items():
                    if isinstance(v, bool):
                        f["attr:bool"] = 1
                    elif isinstance(v, dict) and "__nd__" in v:
                        f["attr:ndarray"] = 1
                    elif v is None or isinstance(v, dict):
                        f["attr:unrepresentable"] = 1
                    elif k == "missing_value":
                        f["attr:missing_value"] = 1
                    elif isinstance(v, list):
                        f["attr:list"] = 1
        else:
            f["rank"] = len(c["array"]["axes"]); f["vkind"] = c["array"]["vkind"]
            f["via"] = c.get("via", "json")
            if c.get("kwargs"):
                f["to_json.kwargs"] = ",".join(sorted(c["kwargs"]))
            has = any(ax.get("attrs_py") for ax in c["array"]["axes"])
            f["axis_attrs"] = has
            if has and "ok" in io:
                # (the JSON form has no place for axis metadata: observed, not required by the statement)
                f["axis_attrs_restored"] = io["ok"]["back"].get("axes_attrs") == io["input"].get("axes_attrs")
        return f

    def size(self, c):
        return len(json.dumps(c))

    def snippet(self, c):
        return ("import sys; sys.path.insert(0, '/verif/harness'); import json, core; from props.c19 import PROP; "
                "case = json.load(open(REPLAY))['case']; print(PROP.impl(case))")


PROP = C19()

"""C18 - interp_axis is per-fibre linear interpolation, exact at the nodes."""
import copy, itertools, json, math, random, warnings
from fractions import Fraction
import numpy as np
import core, gen
from core import da, Axis, DimArray, Dataset, Axes
from .base import Prop
from .c06 import lab_key


def fl(v):
    v = float(v)
    return ["nan"] if math.isnan(v) else ["r", float("%.10e" % v)]


def dyadic_axis(rng, name, n, order, kind):
    """numeric labels with power-of-two gaps so that every float operation of the interpolation is exact"""
    gaps = [rng.choice([Fraction(1, 2), 1, 2, 4]) for _ in range(n - 1)]
    x = Fraction(rng.randint(-4, 4))
    vals = [x]
    for g in gaps:
        x = x + g
        vals.append(x)
    if kind == "i":
        vals = sorted(set(Fraction(int(v * 2)) for v in vals))     # integers, still power-of-two multiples
        vals = vals[:n]
    if order == "dec":
        vals = vals[::-1]
    elif order == "shuf":
        rng.shuffle(vals)
    return {"name": name, "kind": kind, "labels": [gen.enc(v) for v in vals], "_order": order}


def new_points(rng, ax, ints=False):
    if ints:
        # integer coordinates (an int array / list of ints as `values`): still below, on, between and above the labels
        pts = [Fraction(math.floor(Fraction(l[1], l[2]))) for l in new_points(rng, ax)]
        return [gen.enc(p) for p in pts]
    xs = sorted(Fraction(l[1], l[2]) for l in ax["labels"])
    lo, hi = xs[0], xs[-1]
    pts = []
    for _ in range(rng.randint(1, 5)):
        r = rng.random()
        if r < 0.2:
            pts.append(lo - rng.choice([1, Fraction(1, 2), 3]))
        elif r < 0.4:
            pts.append(hi + rng.choice([1, Fraction(1, 4), 2]))
        elif r < 0.65:
            pts.append(rng.choice(xs))
        else:
            i = rng.randrange(len(xs) - 1) if len(xs) > 1 else 0
            a, b = xs[i], xs[min(i + 1, len(xs) - 1)]
            pts.append(a + (b - a) * rng.choice([Fraction(1, 2), Fraction(1, 4), Fraction(3, 4)]))
    if rng.random() < 0.6:
        pts = sorted(pts)
    if rng.random() < 0.12:
        # the stored labels shifted by a hair (same length, np.allclose to the axis, but different coordinates)
        pts = [Fraction(l[1], l[2]) + Fraction(1, 2 ** 30) for l in ax["labels"]]
    return [gen.enc(p) for p in pts]


class InterpEnv(core.CellEnv):
    """`lin a b w` of the mirror over IEEE values: a + w * (b - a), and where that is inf - inf (an infinite node value)
    the same weighted mean written (1 - w) * a + w * b - which is what numpy.interp returns (inf next to an infinite
    node, NaN only between +inf and -inf)"""
    def ev(self, c):
        if c[0] == "lin":
            a, b, w = self.ev(c[1]), self.ev(c[2]), float(Fraction(c[3], c[4]))
            with np.errstate(invalid="ignore"):
                v = a + w * (b - a)
                return (1 - w) * a + w * b if np.isnan(v) else v
        return super().ev(c)


class C18(Prop):
    id = "C18"
    theorems = ["interpAt_node", "interpAt_left", "interpAt_right", "interpAt_between", "interpAxis_axes", "sortsNodes_exists", "SortsNodes.unique", "interpAxis_spec", "InterpolatesAlong.covers", "InterpolatesAlong.node", "InterpolatesAlong.left_fill",
                "InterpolatesAlong.right_fill", "InterpolatesAlong.between", "InterpolatesAlong.between_bounds", "interpAt_between_bounds", "interpAxis_order_independent", "interpAxis_empty_axis",
                "interpAxis_nonnumeric", "interpAxis_bad_axis", "interpAxis_successive", "DSV.interpAxisDs_spec", "DSV.interpAxisDs_interpolates", "interpAxis_order_dependent_with_duplicates",
                "mem_sharedAxes", "sharedAxes_positions", "interpLike_eq_successive", "interpLike_no_shared", "interpLike_one", "interpLike_spec",
                "interpLike_axes", "interpLike_attrs", "interpLike_first_nonnumeric", "interpLike_two", "interpLike_order_independent",
                "interpLike_order_dependent_corner", "interpLike_eq_interpAlong", "interpAlong_of_sublist", "DSV.interpLikeDs_spec",
                "DSV.interpLikeDs_no_shared", "DSV.interpLikeDs_order_is_the_datasets"]
    rule = ("float/int arrays of rank 1-4 with numeric axis labels stored increasing / decreasing / shuffled (power-of-two "
            "gaps and dyadic values so that every float operation is exact), every numeric axis by name, position, negative "
            "position or left out (first axis), new coordinate vectors (sorted or not, ndarray / list / Axis, float or int, "
            "empty) with points below, on, between and above the labels, left/right fills (default NaN, both, only left, "
            "only right), issorted None / True (True only where the labels are stored increasing), single-label axes, NaN cells, "
            "+inf / -inf cells (one, or two on neighbouring nodes of a fibre) with new coordinates on that node, on its "
            "neighbours and half-way to them; "
            "interp_like (DimArray or Axes template, one or two shared axes listed in either order, sometimes an axis the "
            "array lacks or a string-labelled dimension of the array: TypeError), Dataset.interp_axis (axis by name / position / "
            "negative position, variables partly lacking the axis) and Dataset.interp_like (DimArray / Axes / Dataset "
            "template) against the per-variable 1-D definition AND against their mirrors (Lib.interpLike, DSV.interpAxisDs, "
            "DSV.interpLikeDs). Non-trivial = axis of at least 2 labels; distinct = canonical JSON")
    assumptions = ["PARTIAL: floating-point rounding inside np.interp and in the fractional weights is not modelled; the "
                   "primary stream keeps all float operations exact, values compared after rounding to 11 significant digits"]

    def mirrors(self):
        import sys as _s
        t = _s.modules["dimarray.core.transform"]
        d = _s.modules["dimarray.dataset"]
        return {"interp_axis": t.interp_axis, "_interp_internal_maybe_sort": t._interp_internal_maybe_sort,
                "_interp_internal_get_weights": t._interp_internal_get_weights, "_interp_internal_from_weight": t._interp_internal_from_weight,
                "interp_like": t.interp_like, "Dataset.interp_axis": d.Dataset.interp_axis,
                "Dataset.interp_like": d.Dataset.interp_like}

    def gen(self, rng, tier):
        n = 1000 if tier == "quick" else 24000
        for _ in range(n):
            rank = rng.choice([1, 1, 2, 2, 3, 4])
            arr = gen.rand_array(rng, rank=rank, maxn=3, minn=1)
            d = rng.randrange(rank)
            nlab = rng.choice([1, 2, 3, 4, 5])
            arr["axes"][d] = dyadic_axis(rng, arr["axes"][d]["name"], nlab, rng.choice(["inc", "inc", "dec", "shuf"]), rng.choice(["f", "f", "i"]))
            self.label_dtype(arr["axes"][d])
            arr["vkind"] = rng.choice(["f", "f", "i"])
            if rng.random() < 0.4:
                arr["attrs_py"] = {"units": "K"}
            if arr["vkind"] == "f" and rng.random() < 0.25:
                size = 1
                for a_ in arr["axes"]:
                    size *= len(a_["labels"])
                arr["nan_cells"] = sorted(rng.sample(range(size), min(size, rng.randint(1, 2))))
            names = [a["name"] for a in arr["axes"]]
            fills = rng.choice([None, None, [5.0, 7.0], [0.0, 0.0], [5.0, None], [None, 7.0]])
            r = rng.random()
            op = "interp" if r < 0.62 else ("dataset" if r < 0.77 else ("like" if r < 0.92 else "dataset_like"))
            axk = rng.choice([["name", names[d]], ["pos", d], ["pos", d - rank]])
            if d == 0 and rng.random() < 0.15:
                axk = ["default"]               # axis= left out: the first dimension
            c = {"op": op, "array": arr, "axis": axk, "fills": fills, "_d": d}
            q = rng.random()
            if q < 0.15:
                c["newkind"] = "i"              # integer coordinates: an int array or a list of python ints
                c["labels"] = new_points(rng, arr["axes"][d], ints=True)
                c["valform"] = rng.choice(["array", "list", "axis"])
            elif q < 0.2:
                c["labels"] = []                # no new coordinate at all: an empty axis
                c["valform"] = rng.choice(["array", "list"])
            else:
                c["labels"] = new_points(rng, arr["axes"][d])
                c["valform"] = rng.choice(["array", "array", "list", "axis"])
            if is_sorted(arr["axes"][d]) and rng.random() < 0.5:
                c["issorted"] = True            # only where the labels are stored in increasing order: same result
            elif rng.random() < 0.25:
                c["issorted_false"] = True      # issorted=False said explicitly: the library sorts, as for None
            if op in ("like", "dataset_like"):
                c["valform"] = "array"          # the coordinates come with the template
            if op == "like":
                c["tmpl"] = rng.choice(["dimarray", "axes"])
            if op == "like" and rank >= 2 and rng.random() < 0.6:
                # the template shares a second numeric axis with the array: both are interpolated, one after the other
                d2 = rng.choice([x for x in range(rank) if x != d])
                arr["axes"][d2] = dyadic_axis(rng, arr["axes"][d2]["name"], rng.choice([2, 3, 4]), rng.choice(["inc", "dec", "shuf"]), "f")
                c["op"], c["_d2"], c["labels2"] = "like2", d2, new_points(rng, arr["axes"][d2])
                if c.get("issorted") and not is_sorted(arr["axes"][d2]):
                    del c["issorted"]
            if op == "dataset":
                c["ds_axis"] = rng.choice(["name", "name", "pos", "negpos"])
            if op == "dataset_like":
                c["tmpl"] = rng.choice(["dimarray", "axes", "dataset"])
            if arr["vkind"] == "f" and c["labels"] and c.get("newkind", "f") == "f" and rng.random() < 0.15:
                self.add_inf(rng, c)
            if c["op"] in ("like", "like2"):
                # more shapes of template (drawn from a stream of their own, so that the main stream stays what it was):
                # an axis the array does not have (before or after the shared ones), the shared axes listed in the other
                # order, a dimension of the array with string labels listed as well (numpy.interp refuses it: TypeError)
                r2 = random.Random(json.dumps(gen.clean(c), sort_keys=True))
                if r2.random() < 0.3:
                    c["tmpl_extra"] = r2.choice(["first", "last"])
                if c["op"] == "like2" and r2.random() < 0.4:
                    c["tmpl_rev"] = True
                strs = [x["name"] for i, x in enumerate(arr["axes"]) if x["kind"] == "O" and i not in (d, c.get("_d2"))]
                if strs and r2.random() < 0.12:
                    c["tmpl_str"] = r2.choice(strs)
            yield c

    def label_dtype(self, ax):
        """representation variants of the interpolated axis' labels (drawn from a stream of their own): unsigned and narrow
        integer dtypes (differences of unsigned labels wrap around; shifted to be non-negative first), single precision"""
        r2 = random.Random("ld" + json.dumps(ax["labels"]))
        if r2.random() >= 0.3:
            return
        if ax["kind"] == "i":
            ld = r2.choice(["uint8", "uint16", "uint32", "uint64", "int8", "int32"])
            vals = [Fraction(l[1], l[2]) for l in ax["labels"]]
            if ld.startswith("uint") and vals and min(vals) < 0:
                ax["labels"] = [gen.enc(v - min(vals)) for v in vals]
            ax["ldtype"] = ld
        elif ax["kind"] == "f":
            ax["ldtype"] = "float32"

    def add_inf(self, rng, c):
        """infinite data: a +inf / -inf cell on a node of one fibre (sometimes a second one on the neighbouring node: inf..inf
        and inf..-inf segments), and new coordinates that hit that node exactly, its neighbours, and the points half-way.
        numpy.interp (the 1-D definition) returns the node's value on the node and +-inf next to it."""
        arr, d = c["array"], c["_d"]
        shape = [len(a_["labels"]) for a_ in arr["axes"]]
        xs = [Fraction(l[1], l[2]) for l in arr["axes"][d]["labels"]]
        order = sorted(range(len(xs)), key=lambda i: xs[i])
        zero = rng.random() < 0.5               # the first fibre: also the 1-D variable of the Dataset cases
        pos = [0 if (zero and i != d) else rng.randrange(n) for i, n in enumerate(shape)]
        r = order.index(pos[d])
        cells = [(pos, rng.choice([1, -1]))]
        if len(xs) > 1 and rng.random() < 0.4:
            p2 = list(pos)
            p2[d] = order[r + 1 if r + 1 < len(xs) else r - 1]
            cells.append((p2, rng.choice([1, -1])))
        def flat(p):
            k = 0
            for i, n in zip(p, shape):
                k = k * n + i
            return k
        arr["inf_cells"] = [[flat(p), sg] for p, sg in cells]
        extra = [xs[order[r]]]
        for nb in (r - 1, r + 1):
            if 0 <= nb < len(xs):
                if rng.random() < 0.6:
                    extra.append((xs[order[r]] + xs[order[nb]]) / 2)
                if rng.random() < 0.4:
                    extra.append(xs[order[nb]])
        pts = [Fraction(l[1], l[2]) for l in c["labels"]]
        for e in extra:
            pts.insert(rng.randrange(len(pts) + 1), e)
        c["labels"] = [gen.enc(p_) for p_ in pts]

    def build(self, c):
        a = core.build_array(c["array"], 0)
        # dyadic values
        v = (np.arange(a.size) * 0.75 + 1.5).reshape(a.shape)
        if c["array"]["vkind"] == "i":
            v = (np.arange(a.size) * 3 + 1).reshape(a.shape).astype(np.int64)
        for i in c["array"].get("nan_cells", []):
            v.reshape(-1)[i % v.size] = np.nan       # missing data: the node values next to it must still be reproduced
        for i, sg in c["array"].get("inf_cells", []):
            v.reshape(-1)[i % v.size] = sg * np.inf
        b = DimArray(v, axes=[ax.copy() for ax in a.axes])
        b.attrs.update(a.attrs)
        return b

    @staticmethod
    def ds_parts(c, a):
        """the variables of the Dataset cases beside `a` itself ("full"): "other" lacks the axis, "line" is 1-D along it"""
        name = a.dims[c["_d"]]
        other = DimArray(np.array([1.0, 2.0]), axes=[Axis(np.array([0, 1]), "q")])
        other.attrs["long_name"] = "O"
        line = a
        for dname in [x for x in a.dims if x != name]:
            line = line.take(0, axis=dname, indexing="position")
        line = line if isinstance(line, DimArray) else a
        return name, other, line

    def template_axes(self, c):
        """the axes of the template of the interp_like cases, as `impl` builds them (name, dtype kind, labels)"""
        axes = c["array"]["axes"]
        t = [{"name": axes[c["_d"]]["name"], "kind": c.get("newkind", "f"), "labels": c["labels"]}]
        unrelated = {"name": "unrelated", "kind": "f", "labels": [gen.enc(Fraction(v)) for v in (1, 2, 3)]}
        if c["op"] == "like2":
            t.append({"name": axes[c["_d2"]]["name"], "kind": "f", "labels": c["labels2"]})
            if c.get("tmpl_rev"):
                t.reverse()
        if c.get("tmpl_str"):
            t.append({"name": c["tmpl_str"], "kind": "f", "labels": [gen.enc(Fraction(1, 2))]})
        if c["op"] == "dataset_like" or c.get("tmpl_extra") == "last":
            # the template also carries an axis that the array / the Dataset does not have: nothing to do along it
            t.append(unrelated)
        elif c.get("tmpl_extra") == "first":
            t.insert(0, unrelated)
        return t

    def lean_ds(self, c, toks):
        """the Dataset of the Dataset cases as the driver reads it (`ds_op`): the cells of variable k are `src k i`"""
        arr = gen.clean(c["array"])
        full = core.lean_array(arr, toks)
        other = core.lean_array({"axes": [{"name": "q", "kind": "i", "labels": [gen.enc(Fraction(0)), gen.enc(Fraction(1))]}],
                                 "vkind": "f", "attrs_py": {"long_name": "O"}}, toks)
        line = full
        if len(arr["axes"]) > 1:
            line = core.lean_array({"axes": [arr["axes"][c["_d"]]], "vkind": arr["vkind"], "attrs_py": arr.get("attrs_py", {})}, toks)
        return {"keys": ["full", "other", "line"], "arrays": [full, other, line], "attrs": toks.enc({"title": "T"})}

    def impl(self, c):
        toks = core.AttrTokens()
        a = self.build(c)
        before = core.obs_array(a, toks)
        kind = c.get("newkind", "f")
        plain = core.label_array(c["labels"], kind)         # the canonical spelling of `values`: an ndarray
        newv = plain
        if c.get("valform") == "list":
            newv = [core.dec_label(l, kind) for l in c["labels"]]
        elif c.get("valform") == "axis":
            newv = Axis(plain, a.dims[c["_d"]])
        kw0 = {}
        if c["fills"] is not None:
            for k, v in zip(("left", "right"), c["fills"]):
                if v is not None:
                    kw0[k] = v
        kw = dict(kw0)
        if c.get("issorted"):
            kw["issorted"] = True
        elif c.get("issorted_false"):
            kw["issorted"] = False
        axkw = {} if c["axis"][0] == "default" else {"axis": c["axis"][1]}

        def template(axes=None):
            axes = [Axis(core.label_array(t["labels"], t["kind"]), t["name"]) for t in self.template_axes(c)]
            if c.get("tmpl") == "axes":
                return Axes(axes)
            t = DimArray(np.zeros(tuple(ax.size for ax in axes)), axes=axes)
            return Dataset({"v": t}) if c.get("tmpl") == "dataset" else t

        def run():
            with warnings.catch_warnings():
                warnings.simplefilter("ignore")
                if c["op"] == "interp":
                    return core.obs_array(a.interp_axis(newv, **axkw, **kw), toks)
                if c["op"] == "like2":
                    n1, n2 = a.dims[c["_d"]], a.dims[c["_d2"]]
                    new2 = core.label_array(c["labels2"], "f")
                    got = core.obs_array(a.interp_like(template(), **kw), toks)
                    # one axis after the other; the order is not part of the statement (it only matters where both
                    # coordinates are out of range and the fills differ): either order is accepted
                    got["_seq"] = core.obs_array(a.interp_axis(plain, axis=n1, **kw0).interp_axis(new2, axis=n2, **kw0), toks)
                    got["_seq2"] = core.obs_array(a.interp_axis(new2, axis=n2, **kw0).interp_axis(plain, axis=n1, **kw0), toks)
                    return got
                if c["op"] == "like":
                    return core.obs_array(a.interp_like(template(), **kw), toks)
                # Dataset: one variable with the axis, one without, one 1-D along it
                name, other, line = self.ds_parts(c, a)
                ds = Dataset({"full": a, "other": other, "line": line})
                ds.attrs["title"] = "T"
                if c["op"] == "dataset":
                    dsdims = list(ds.dims)
                    how = c.get("ds_axis", "name")
                    axd = name if how == "name" else (dsdims.index(name) if how == "pos" else dsdims.index(name) - len(dsdims))
                    r = ds.interp_axis(newv, axis=axd, **kw)
                else:
                    # the template also carries an axis that the Dataset does not have: nothing to do along it
                    r = ds.interp_like(template(), **kw)
                out = {k: core.obs_array(r[k], toks) for k in r.keys()}
                out["_keys"] = list(r.keys())
                out["_attrs"] = dict(r.attrs)
                out["_dims"] = list(r.dims)
                out["_shared"] = all(any(ax is dax for dax in r.axes) for k in r.keys() for ax in r[k].axes)
                # the per-variable definition, in the canonical spelling (ndarray coordinates, axis by name, no issorted)
                out["_expect"] = {"full": core.obs_array(a.interp_axis(plain, axis=name, **kw0), toks),
                                  "other": core.obs_array(other, toks),
                                  "line": core.obs_array(line.interp_axis(plain, axis=name, **kw0), toks)}
                return out
        out = core.guarded(run)
        out["input"] = before
        if core.obs_array(a, toks) != before:
            out["operand_modified"] = True
        return out

    def request(self, c):
        toks = core.AttrTokens()
        # issorted=True on a sorted axis, lists / Axis objects as coordinates, a left-out axis and one-sided fills are other
        # spellings of what the mirror models
        if c["op"] in ("like", "like2"):
            # `Lib.interpLike`: the template is read through its axes (a DimArray or an Axes object)
            return {"op": "transform", "fn": "interp_like", "arrays": [core.lean_array(gen.clean(c["array"]), toks)],
                    "template": [core.lean_axis(t, None) for t in self.template_axes(c)]}
        if c["op"] == "dataset_like":
            # `DSV.interpLikeDs` (a template DimArray / Axes / Dataset is read through its axes)
            return dict(self.lean_ds(c, toks), op="ds_op", fn="interp_like",
                        template=[core.lean_axis(t, None) for t in self.template_axes(c)])
        if c["op"] == "dataset":
            # `DSV.interpAxisDs`: the axis by name (a position in the Dataset's dimensions is another spelling)
            return dict(self.lean_ds(c, toks), op="ds_op", fn="interp_axis", dim=c["array"]["axes"][c["_d"]]["name"],
                        labels=c["labels"], newkind=c.get("newkind", "f"))
        return {"op": "transform", "fn": "interp", "arrays": [core.lean_array(gen.clean(c["array"]), toks)],
                "axis": ["pos", 0] if c["axis"][0] == "default" else c["axis"],
                "labels": c["labels"], "newkind": c.get("newkind", "f")}

    def lean_vs_impl_array(self, got, lo, env, tag):
        """one array of the implementation against one array of the model: dims, shape, labels, values (the rounding
        discipline of the plug-in), metadata"""
        bad = []
        if got["dims"] != lo["dims"] or got["shape"] != lo["shape"]:
            return [tag + "dims"]
        if [(x["name"], [lab_key(l) for l in x["labels"]]) for x in got["axes"]] != [(x["name"], [lab_key(l) for l in x["labels"]]) for x in lo["axes"]]:
            bad.append(tag + "labels")
        if [x["kind"] for x in got["axes"] if x["labels"]] != [x["kind"] for x in lo["axes"] if x["labels"]]:
            bad.append(tag + "label_kind")
        if [fl(cv(v)) for v in got["values"]] != [fl(env.ev(x)) for x in lo["cells"]]:
            bad.append(tag + "values")
        if sorted(map(tuple, got["attrs"] or [])) != sorted(map(tuple, lo["attrs"])):
            bad.append(tag + "attrs")
        return bad

    def lean_vs_impl_ds(self, c, io, lean, a, left, right):
        """correspondence for the Dataset cases: `DSV.interpAxisDs` / `DSV.interpLikeDs` against the implementation"""
        if not isinstance(lean, dict) or ("ok" not in lean and "err" not in lean):
            return ["M.no_answer"]
        if "err" in io or "err" in lean:
            if ("err" in io) != ("err" in lean):
                return ["M.outcome"]
            return [] if io["err"] == lean["err"] else ["M.errclass"]
        o, lo = io["ok"], lean["ok"]
        if sorted(o["_keys"]) != sorted(lo["keys"]):
            return ["M.keys"]
        bad = []
        _, other, line = self.ds_parts(c, a)
        env = InterpEnv([a.values, other.values, line.values], fill=left, fill2=right)
        if o["_dims"] != lo["dims"]:
            bad.append("M.dims")
        if sorted(map(tuple, core.AttrTokens().enc(o["_attrs"]))) != sorted(map(tuple, lo["attrs"])):
            bad.append("M.attrs")
        for k in o["_keys"]:
            bad += self.lean_vs_impl_array(o[k], lo["vars"][k], env, "M.%s." % k)
        return bad

    def judge(self, c, io, ans):
        lean = ans["lib"]
        bad, prop_bad = [], []
        a = self.build(c)
        left, right = (np.nan, np.nan) if c["fills"] is None else [np.nan if v is None else v for v in c["fills"]]
        if c["op"] == "like2":
            if "ok" in io:
                got = dict(io["ok"])
                def cmp(want):
                    b = []
                    for f in ("dims", "shape", "attrs"):
                        if got[f] != want[f]:
                            b.append("like2." + f)
                    if [fl(cv(v)) for v in got["values"]] != [fl(cv(v)) for v in want["values"]]:
                        b.append("like2.values")
                    if [(x["name"], x["labels"]) for x in got["axes"]] != [(x["name"], x["labels"]) for x in want["axes"]]:
                        b.append("like2.axes")
                    return b
                b1, b2 = cmp(io["ok"]["_seq"]), cmp(io["ok"]["_seq2"])
                if b1 and b2:
                    prop_bad += b1
                # the 1-D definition applied twice: numpy.interp of every fibre along one shared axis, then along the other
                d, d2 = c["_d"], c["_d2"]
                ax, ax2 = c["array"]["axes"][d], c["array"]["axes"][d2]
                w12 = np_interp_along(np_interp_along(a.values, d, ax["labels"], c["labels"], left, right), d2, ax2["labels"], c["labels2"], left, right)
                w21 = np_interp_along(np_interp_along(a.values, d2, ax2["labels"], c["labels2"], left, right), d, ax["labels"], c["labels"], left, right)
                gv = [fl(cv(v)) for v in got["values"]]
                if gv != [fl(v) for v in w12.reshape(-1)] and gv != [fl(v) for v in w21.reshape(-1)]:
                    prop_bad.append("values:numpy_interp")
            elif not c.get("tmpl_str"):
                prop_bad.append("outcome:" + io["err"])
            if io.get("operand_modified"):
                prop_bad.append("operand_modified")
            if not prop_bad:
                # correspondence: `Lib.interpLike` (which fixes the order: the array's own axis order) against the implementation
                if "err" in lean or "err" in io:
                    if ("err" in lean) != ("err" in io):
                        bad.append("M.outcome")
                    elif lean["err"] != io["err"]:
                        bad.append("M.errclass")
                else:
                    bad += self.lean_vs_impl_array(io["ok"], lean["ok"], InterpEnv([a.values], fill=left, fill2=right), "M.")
            if not prop_bad and not bad:
                return None
            return {"kind": "P" if prop_bad else "M", "differs": sorted(set(prop_bad + bad)), "msg": io.get("msg")}
        if c["op"] in ("dataset", "dataset_like"):
            if "ok" in io:
                o = io["ok"]
                if sorted(o.get("_keys", ["full", "other", "line"])) != ["full", "line", "other"]:
                    prop_bad.append("dataset.keys")
                for k in ("full", "other", "line"):
                    if k not in o:
                        continue
                    got, want = dict(o[k]), dict(o["_expect"][k])
                    got["values"] = [fl(cv(v)) for v in got["values"]]; want["values"] = [fl(cv(v)) for v in want["values"]]
                    for f in ("dims", "shape", "values", "attrs"):
                        if got[f] != want[f]:
                            prop_bad.append("dataset.%s.%s" % (k, f))
                    if [(x["name"], x["labels"]) for x in got["axes"]] != [(x["name"], x["labels"]) for x in want["axes"]]:
                        prop_bad.append("dataset.%s.axes" % k)
                    if k != "other":
                        # the interpolated axis is exactly the requested coordinates (whatever the reference says)
                        for x in got["axes"]:
                            if x["name"] == io["input"]["dims"][c["_d"]] and [lab_key(l) for l in x["labels"]] != [lab_key(l) for l in c["labels"]]:
                                prop_bad.append("dataset.%s.axes.labels:new" % k)
                if o["_attrs"] != {"title": "T"}:
                    prop_bad.append("dataset.attrs")
                if not o["_shared"]:
                    prop_bad.append("dataset.not_shared")
            else:
                prop_bad.append("outcome:" + io["err"])
            if io.get("operand_modified"):
                prop_bad.append("operand_modified")
            if not prop_bad:
                bad = self.lean_vs_impl_ds(c, io, lean, a, left, right)
            if not prop_bad and not bad:
                return None
            return {"kind": "P" if prop_bad else "M", "differs": sorted(set(prop_bad + bad)), "msg": io.get("msg")}
        if "ok" in lean:
            env = InterpEnv([a.values], fill=left, fill2=right)
            lo = core.lean_obs_to_canon(lean["ok"], env)
            lo["values"] = [fl(env.ev(x)) for x in lean["ok"]["cells"]]
            lo["scalar"] = False
            if "err" in io:
                bad.append("outcome")
            else:
                got = dict(io["ok"]); got["values"] = [fl(cv(v)) for v in io["ok"]["values"]]
                bad += core.diff_obs({"ok": got}, {"ok": lo}, keys=("dims", "shape", "axes", "values", "attrs"))
                bad = [b for b in bad if b != "axes.attrs"]
        else:
            if "ok" in io:
                bad.append("outcome")
            elif io["err"] != lean["err"]:
                bad.append("M.errclass")
        if "ok" in io:
            got = io["ok"]
            d = c["_d"]
            # the 1-D definition: numpy.interp of every fibre against the (sorted) labels
            want = np_interp_along(a.values, d, c["array"]["axes"][d]["labels"], c["labels"], left, right)
            if [fl(cv(v)) for v in got["values"]] != [fl(v) for v in want.reshape(-1)]:
                prop_bad.append("values:numpy_interp")
            if got["dims"] != io["input"]["dims"]:
                prop_bad.append("dims")
            else:
                for i, (x, y) in enumerate(zip(got["axes"], io["input"]["axes"])):
                    if i == d:
                        if [lab_key(l) for l in x["labels"]] != [lab_key(l) for l in c["labels"]]:
                            prop_bad.append("axes.labels:new")
                    elif x["labels"] != y["labels"]:
                        prop_bad.append("axes.labels:other")
            if got["attrs"] != io["input"]["attrs"]:
                prop_bad.append("attrs")
        elif "ok" in lean:
            prop_bad.append("outcome:" + io["err"])
        if io.get("operand_modified"):
            prop_bad.append("operand_modified")
        if not bad and not prop_bad:
            return None
        return {"kind": "P" if prop_bad else "M", "differs": sorted(set(bad + prop_bad)), "msg": io.get("msg")}

    def nontrivial(self, c):
        return len(c["array"]["axes"][c["_d"]]["labels"]) >= 2

    def features(self, c, io):
        ax = c["array"]["axes"][c["_d"]]
        fills = c["fills"]
        fk = "none" if fills is None else ("both" if None not in fills else ("left" if fills[1] is None else "right"))
        k = c["axis"]
        return {"outcome": "err:" + io["err"] if "err" in io else "ok", "op": c["op"], "rank": len(c["array"]["axes"]),
                "order": ax.get("_order"), "nlab": len(ax["labels"]), "fills": fk, "vkind": c["array"]["vkind"],
                "issorted": "True" if c.get("issorted") else "False" if c.get("issorted_false") else "None", "valform": c.get("valform", "array"), "newkind": c.get("newkind", "f"),
                "nnew": min(len(c["labels"]), 3), "tmpl": c.get("tmpl"), "tmpl_extra": c.get("tmpl_extra"), "tmpl_rev": bool(c.get("tmpl_rev")),
                "tmpl_str": bool(c.get("tmpl_str")), "ds_axis": c.get("ds_axis"), "inf": len(c["array"].get("inf_cells", [])), "ldtype": ax.get("ldtype"),
                "axis_form": k[0] if k[0] != "pos" else ("pos" if k[1] >= 0 else "negpos"),
                # every case reaches a mirror: interp -> Lib.interpAxis, like / like2 -> Lib.interpLike,
                # dataset -> DSV.interpAxisDs, dataset_like -> DSV.interpLikeDs
                "lean_compared:" + c["op"]: True}

    def size(self, c):
        return sum(len(a["labels"]) for a in c["array"]["axes"]) + len(c["labels"])

    def snippet(self, c):
        return ("import sys; sys.path.insert(0, '/verif/harness'); import json, core; from props.c18 import PROP; "
                "case = json.load(open(REPLAY))['case']; print(PROP.impl(case))")


def np_interp_along(values, d, labels, newlabels, left, right):
    """the 1-D definition: numpy.interp of every fibre along dimension `d` against the (sorted) labels"""
    xs = np.array([float(Fraction(l[1], l[2])) for l in labels])
    order = np.argsort(xs, kind="stable")
    newx = np.array([float(Fraction(l[1], l[2])) for l in newlabels])
    vals = np.moveaxis(np.asarray(values).astype(float), d, -1)
    flat = vals.reshape(-1, vals.shape[-1])
    want = np.array([np.interp(newx, xs[order], row[order], left=left, right=right) for row in flat])
    return np.moveaxis(want.reshape(vals.shape[:-1] + (len(newx),)), -1, d)


def is_sorted(ax):
    """labels stored in increasing order (where issorted=True may be passed)"""
    xs = [Fraction(l[1], l[2]) for l in ax["labels"]]
    return all(x < y for x, y in zip(xs, xs[1:]))


def cv(v):
    if v[0] == "n":
        return float(Fraction(v[1], v[2]))
    if v[0] == "nan":
        return float("nan")
    if v[0] == "b":
        return float(v[1])
    if v[0] == "inf":
        return float("inf") if v[1] else float("-inf")
    return float("nan")


PROP = C18()

"""C12 - stack and concatenate join arrays without misaligning them."""
import copy, itertools
from fractions import Fraction
import numpy as np
import core, gen
from core import da, Axis, DimArray
from .base import Prop
from .c06 import lab_key, cell_index, order_labels, related_labels


def gen_same_dims(rng, n, square=False, relation=None):
    """n arrays over the same set of dimensions (listed in the same or a different order)"""
    rank = rng.choice([1, 2, 2, 3])
    dims = rng.sample(gen.DIMS, rank)
    kinds = {d: rng.choice(["i", "f", "O"]) for d in dims}
    size = rng.randint(1, 3)
    bases = {}
    for d in dims:
        bases[d], _ = gen.labels_of_kind(rng, kinds[d], size if square else rng.randint(1, 3), "inc")
    relation = relation or rng.choice(["equal", "equal", "permuted", "overlapping", "disjoint", "equal", "nearly"])
    arrays = []
    for k in range(n):
        order = list(dims)
        if rng.random() < 0.35:
            rng.shuffle(order)
        axes = []
        for d in order:
            if k == 0 or relation == "equal":
                labels = list(bases[d])
            elif relation == "permuted":
                labels = list(bases[d]); rng.shuffle(labels)
            elif relation == "nearly":
                # float labels a hair away from the first array's (np.allclose, but different labels); others equal
                labels = related_labels(rng, kinds[d], bases[d], "nearly")
            elif relation == "overlapping":
                labels = related_labels(rng, kinds[d], bases[d], "overlapping") or list(bases[d])
                labels = order_labels(rng, labels, "inc")
            else:
                labels = related_labels(rng, kinds[d], bases[d], "disjoint")
                if square:
                    labels = (labels * 3)[:len(bases[d])] if len(set(map(tuple, labels))) >= len(bases[d]) else labels
            axes.append({"name": d, "kind": kinds[d], "labels": labels})
        arrays.append({"axes": axes, "vkind": rng.choice(["f", "f", "i"])})
    return arrays, relation


def check_stack(c, inputs, out, keys, name):
    bad = []
    if not out["dims"] or out["dims"][0] != name:
        return ["dims:new_first"]
    if [lab_key(l) for l in out["axes"][0]["labels"]] != [lab_key(l) for l in keys]:
        bad.append("axes.labels:keys")
    rest_axes = out["axes"][1:]
    stride = 1
    for n in out["shape"][1:]:
        stride *= n
    for k, inp in enumerate(inputs):
        if sorted(inp["dims"]) != sorted(out["dims"][1:]):
            bad.append("dims:set"); break
        for flat, coord in enumerate(itertools.product(*[ax["labels"] for ax in rest_axes])):
            cd = {ax["name"]: l for ax, l in zip(rest_axes, coord)}
            src = cell_index(inp, cd)
            got = out["values"][k * stride + flat]
            if src is None:
                if got != ["nan"]:
                    bad.append("values:nan_elsewhere"); break
            elif got != inp["values"][src] and not (inp["vkind"] == "i" and got == inp["values"][src]):
                bad.append("values:slice"); break
        # every input label must be present (no data lost)
        for ax in inp["axes"]:
            oa = out["axes"][out["dims"].index(ax["name"])]
            if not set(lab_key(l) for l in ax["labels"]) <= set(lab_key(l) for l in oa["labels"]):
                bad.append("axes.labels:lost")
    return sorted(set(bad))


def check_concat(c, inputs, out, dim):
    bad = []
    if out["dims"] != inputs[0]["dims"]:
        return ["dims"]
    pos = out["dims"].index(dim)
    cat = []
    for inp in inputs:
        if dim not in inp["dims"]:
            return ["dims:missing"]
        cat += inp["axes"][inp["dims"].index(dim)]["labels"]
    if [lab_key(l) for l in out["axes"][pos]["labels"]] != [lab_key(l) for l in cat]:
        bad.append("axes.labels:concat")
        return bad
    # cell by cell: position along `dim` tells which input it comes from
    bounds = []
    acc = 0
    for inp in inputs:
        n = len(inp["axes"][inp["dims"].index(dim)]["labels"])
        bounds.append((acc, acc + n)); acc += n
    for flat, idx in enumerate(itertools.product(*[range(n) for n in out["shape"]])):
        k = [i for i, (lo, hi) in enumerate(bounds) if lo <= idx[pos] < hi][0]
        inp = inputs[k]
        cd = {}
        for d, ax, i in zip(out["dims"], out["axes"], idx):
            cd[d] = ax["labels"][i]
        # along the concatenation dimension use the position inside the input (labels may repeat across inputs)
        src = 0
        okc = True
        for d2, ax2, n2 in zip(inp["dims"], inp["axes"], inp["shape"]):
            if d2 == dim:
                p = idx[pos] - bounds[k][0]
            else:
                keys = [lab_key(l) for l in ax2["labels"]]
                kk = lab_key(cd[d2])
                if kk not in keys:
                    okc = False; break
                p = keys.index(kk)
            src = src * n2 + p
        got = out["values"][flat]
        if not okc:
            if got != ["nan"]:
                bad.append("values:nan_elsewhere"); break
        elif got != inp["values"][src]:
            bad.append("values:slice"); break
    return bad


class C12(Prop):
    id = "C12"
    theorems = ["stackNew_get", "stackNew_shape", "concat2_get", "concat2_shape", "transpose_names_dims",
                "reorderLikeFirst_dims", "reorderLikeFirst_error", "stack_spec", "stack_error_is_not_ok_of_label_mismatch",
                "concatenate_labels", "concatenate_spec", "joinOffset_cover", "concatenate_refuses_mismatch", "concatenate_ok_secondary", "stack_noalign_spec", "stack_refuses_mismatch",
                "stack_align_spec", "stack_align_value", "concatenate_align_spec"]
    rule = ("lists, tuples and dicts of 1-4 arrays of rank 0-3 over one set of dimensions listed in the same or in a different "
            "order (square shapes included so that a positional mix-up is shape-compatible), secondary axes equal / permuted / "
            "overlapping / disjoint, int/float/str labels, a share with a zero-length axis (on every input or on one), a share "
            "carrying array- and axis-level metadata; stack with int/str/float keys given as list or ndarray, dict keys or "
            "dict + explicit keys=, explicit / default axis name; concatenate (list / tuple) along every axis by name, "
            "position, negative position or by default; align in {False, True} with sort in {False, True}, join='outer' "
            "spelled out or left to default. Non-trivial = at least two arrays; distinct = canonical JSON")
    assumptions = ["labels unique per axis"]

    def mirrors(self):
        import sys as _s
        al = _s.modules["dimarray.core.align"]
        return {"stack": al.stack, "concatenate": al.concatenate, "_check_stack_args": al._check_stack_args,
                "_check_stack_axis": al._check_stack_axis, "_get_axes": al._get_axes, "_concatenate_axes": al._concatenate_axes}

    def variants(self, rng, c):
        """spellings and input families on top of a base case: metadata on arrays and axes, zero-length axes,
        float / ndarray keys, dict + explicit keys=, tuple container and default axis for concatenate, join= through
        the keyword arguments of align"""
        arrays = c["arrays"]
        if rng.random() < 0.4:
            # metadata: per array, and per dimension (the same on every array)
            c["with_attrs"] = True
            for k, a in enumerate(arrays):
                if rng.random() < 0.7:
                    a["attrs_py"] = {"title": "A%d" % k, "n": k}
                for ax in a["axes"]:
                    if ax["name"] in ("x", "z") or rng.random() < 0.3:
                        ax["attrs_py"] = {"units": "u" + ax["name"]}
        r = rng.random()
        dims = [ax["name"] for ax in arrays[0]["axes"]]
        if r < 0.06 and dims:
            # a dimension without labels on every array
            d0 = rng.choice(dims)
            for a in arrays:
                for ax in a["axes"]:
                    if ax["name"] == d0:
                        ax["labels"] = []
            c["zero"] = "all"
        elif r < 0.12 and dims and len(arrays) > 1:
            # ... or on one array only (fine along the concatenation axis, a mismatch along any other)
            d0 = rng.choice(dims)
            for ax in rng.choice(arrays)["axes"]:
                if ax["name"] == d0:
                    ax["labels"] = []
            c["zero"] = "one"
            if c["op"] == "stack" or (c["axis"][1] if c["axis"][0] == "name" else dims[c["axis"][1]]) != d0:
                if c["_rel"] in ("equal", "nearly"):
                    c["_rel"] = "overlapping"
        if c["op"] == "stack":
            k = len(arrays)
            if c["keys"] is not None and rng.random() < 0.25:
                # float keys
                c["keys"] = [gen.enc(Fraction(v, 2)) for v in rng.sample(range(-3, 12), k)]
                c["keykind"] = "f"
            if c["keys"] is not None and c["container"] != "dict" and rng.random() < 0.3:
                c["keys_as"] = "ndarray"
            if c["keys"] is not None and c["container"] == "dict" and rng.random() < 0.4:
                c["explicit_keys"] = True      # stack({...}, keys=[...]): the explicit keys label the new axis
        else:
            if rng.random() < 0.3:
                c["container"] = "tuple"
            if c["axis"] == ["pos", 0] and rng.random() < 0.6:
                c["axis_default"] = True       # concatenate(arrays): axis=0
        if c["align"] and rng.random() < 0.25:
            c["join"] = "outer"                # the default join, spelled out
        return c

    def gen(self, rng, tier):
        n = 800 if tier == "quick" else 20000
        for _ in range(n):
            yield self.variants(rng, self.gen_base(rng))
        m = 80 if tier == "quick" else 1500
        for _ in range(m):
            # 0-d inputs: stack makes a 1-d array labelled by the keys
            k = rng.choice([1, 2, 3, 4])
            arrays = [{"axes": [], "vkind": rng.choice(["f", "f", "i"])} for _ in range(k)]
            keykind = rng.choice(["i", "O", "default"])
            keys = None
            if keykind == "i":
                keys = [["n", v, 1] for v in rng.sample(range(0, 20), k)]
            elif keykind == "O":
                keys = [["s", v] for v in rng.sample(gen.STRS, k)]
            doalign = rng.random() < 0.3
            yield self.variants(rng, {"op": "stack", "arrays": arrays, "axis": rng.choice(["stk", "stk", None]), "keys": keys,
                                      "keykind": "i" if keykind == "default" else keykind,
                                      "container": rng.choice(["list", "list", "tuple", "dict"]),
                                      "align": doalign, "sort": doalign and rng.random() < 0.4, "_rel": "equal"})

    def gen_base(self, rng):
        if True:
            k = rng.choice([1, 2, 2, 3, 4])
            arrays, rel = gen_same_dims(rng, k, square=rng.random() < 0.5)
            doalign = rng.random() < 0.35
            if rng.random() < 0.5:
                keykind = rng.choice(["i", "O", "default"])
                keys = None
                if keykind == "i":
                    keys = [["n", v, 1] for v in rng.sample(range(0, 20), k)]
                elif keykind == "O":
                    keys = [["s", v] for v in rng.sample(gen.STRS, k)]
                return {"op": "stack", "arrays": arrays, "axis": rng.choice(["stk", "stk", None]), "keys": keys,
                        "keykind": "i" if keykind == "default" else keykind, "container": rng.choice(["list", "list", "tuple", "dict"]),
                        "align": doalign, "sort": doalign and rng.random() < 0.4, "_rel": rel}
            else:
                a0 = arrays[0]
                d = rng.randrange(len(a0["axes"]))
                # labels along the concatenation axis need not be related
                return {"op": "concatenate", "arrays": arrays, "axis": ["name", a0["axes"][d]["name"]] if rng.random() < 0.5 else ["pos", d if rng.random() < 0.6 else d - len(a0["axes"])],
                        "align": doalign, "sort": doalign and rng.random() < 0.4, "_rel": rel}

    def impl(self, c):
        toks = core.AttrTokens()
        arrs = [core.build_array(a, k) for k, a in enumerate(c["arrays"])]
        before = [core.obs_array(a, toks) for a in arrs]
        kw = {}
        if c["align"]:
            kw["align"] = True
            if c["sort"]:
                kw["sort"] = True
            if c.get("join"):
                kw["join"] = c["join"]

        def run():
            if c["op"] == "stack":
                keys = None if c["keys"] is None else [core.dec_label(k, c["keykind"]) for k in c["keys"]]
                if c["container"] == "dict":
                    ks = keys if keys is not None else list(range(len(arrs)))
                    if c.get("explicit_keys"):
                        arg = dict(zip(["k%d" % i for i in range(len(arrs))], arrs))
                        kw["keys"] = keys
                    else:
                        arg = dict(zip(ks, arrs))
                    return core.obs_array(da.stack(arg, axis=c["axis"], **kw), toks)
                arg = list(arrs) if c["container"] == "list" else tuple(arrs)
                if keys is not None:
                    kw["keys"] = core.label_array(c["keys"], c["keykind"]) if c.get("keys_as") == "ndarray" else keys
                return core.obs_array(da.stack(arg, axis=c["axis"], **kw), toks)
            arg = tuple(arrs) if c.get("container") == "tuple" else list(arrs)
            if c.get("axis_default"):
                return core.obs_array(da.concatenate(arg, **kw), toks)
            return core.obs_array(da.concatenate(arg, axis=c["axis"][1], **kw), toks)
        out = core.guarded(run)
        out["inputs"] = before
        if [core.obs_array(a, toks) for a in arrs] != before:
            out["operand_modified"] = True
        return out

    def request(self, c):
        toks = core.AttrTokens()
        arrs = [core.lean_array(gen.clean(a), toks) for a in c["arrays"]]
        if c["op"] == "stack":
            keys = c["keys"] if c["keys"] is not None else [["n", i, 1] for i in range(len(arrs))]
            return {"op": "stack", "arrays": arrs, "axis": c["axis"], "keys": keys, "keykind": c["keykind"],
                    "align": c["align"], "sort": c["sort"]}
        return {"op": "concatenate", "arrays": arrs, "axis": c["axis"], "align": c["align"], "sort": c["sort"]}

    def judge(self, c, io, ans):
        lean = ans["lib"]
        bad, prop_bad = [], []
        if "ok" in lean:
            env = core.CellEnv([core.build_array(a, k).values for k, a in enumerate(c["arrays"])])
            lo = core.lean_obs_to_canon(lean["ok"], env, cast_kind=None); lo["scalar"] = False
            # NumPy casts mixed int / float inputs to float when joining
            lean = {"ok": lo}
        d = core.diff_obs(io, lean, keys=("dims", "shape", "axes", "values", "attrs"))
        bad += [("M." + x if x == "errclass" else x) for x in d]
        misaligned = c["_rel"] in ("permuted", "overlapping", "disjoint") and len(c["arrays"]) > 1
        if "ok" in io:
            if c["op"] == "stack":
                keys = c["keys"] if c["keys"] is not None else [["n", i, 1] for i in range(len(c["arrays"]))]
                prop_bad += check_stack(c, io["inputs"], io["ok"], keys, c["axis"] or "unnamed")
            else:
                dims0 = io["inputs"][0]["dims"]
                dim = c["axis"][1] if c["axis"][0] == "name" else dims0[c["axis"][1]]
                prop_bad += check_concat(c, io["inputs"], io["ok"], dim)
                if not c["align"] and not prop_bad:
                    # 'the other axes unchanged': metadata included (the generator puts the same metadata on a dimension
                    # of every input)
                    a0 = {ax["name"]: ax for ax in io["inputs"][0]["axes"]}
                    for ax in io["ok"]["axes"]:
                        if ax["name"] != dim and ax.get("attrs") != a0[ax["name"]].get("attrs"):
                            prop_bad.append("axes.attrs:secondary_changed")
            if io["ok"]["attrs"]:
                prop_bad.append("attrs:not_dropped")
        else:
            dims = set(tuple(ax["name"] for ax in a["axes"]) for a in c["arrays"])
            if "ok" in lean and len(dims) > 1 and io["err"] == "value":
                pass    # inputs listing their dimensions in different orders may be refused (property) or reordered (mirror)
            elif "ok" in lean:
                prop_bad.append("outcome:" + io["err"])
            elif not c["align"] and misaligned and io["err"] != "value":
                prop_bad.append("errclass:expected ValueError")
        if io.get("operand_modified"):
            prop_bad.append("operand_modified")
        if not bad and not prop_bad:
            return None
        return {"kind": "P" if prop_bad else "M", "differs": sorted(set(bad + prop_bad)), "msg": io.get("msg")}

    def known(self, c, io, ans, mm, open_findings):
        return None

    def nontrivial(self, c):
        return len(c["arrays"]) >= 2

    def features(self, c, io):
        dims = [tuple(ax["name"] for ax in a["axes"]) for a in c["arrays"]]
        f = {"outcome": "err:" + io["err"] if "err" in io else "ok", "op": c["op"], "n": len(c["arrays"]), "rel": c["_rel"],
             "align": c["align"], "sort": c["sort"], "dims_reordered": len(set(dims)) > 1,
             "container": c.get("container") or "list", "rank": len(c["arrays"][0]["axes"]),
             "with_attrs": bool(c.get("with_attrs")), "zero_length_axis": c.get("zero", "no"), "join_kw": c.get("join", "default")}
        if c["op"] == "stack":
            f["keys"] = ("none" if c["keys"] is None else c["keykind"]) + (":ndarray" if c.get("keys_as") == "ndarray" else "") \
                + (":dict+keys=" if c.get("explicit_keys") else "")
        else:
            f["axis"] = "default" if c.get("axis_default") else (c["axis"][0] + ("<0" if c["axis"][0] == "pos" and c["axis"][1] < 0 else ""))
        return f

    def size(self, c):
        return 50 * len(c["arrays"]) + sum(len(ax["labels"]) for a in c["arrays"] for ax in a["axes"])

    def snippet(self, c):
        return ("import sys; sys.path.insert(0, '/verif/harness'); import json, core; from props.c12 import PROP; "
                "case = json.load(open(REPLAY))['case']; print(PROP.impl(case))")


PROP = C12()

"""C04 (extension) - what an operator computes in a cell: CONCRETE float data (small integers, dyadic rationals, zeros, NaN,
+inf, -inf) evaluated by the concrete Lean model Lib/OpVals.lean (driver op "opx") through the mirrors `operation` /
`operationNd` / `compareNd`, and compared cell by cell with the implementation (NaN / inf positions and error classes exactly;
a rational exactly when it is a float64, else within 1e-12); plus the oracle from the property text with the value model made
explicit: a coordinate one operand lacks holds NaN for the NaN-absorbing operators (+ - * / //), and for ** holds NaN unless
the present operand is base 1 / exponent 0 (IEEE: finding K01)."""
import itertools, math, operator, warnings
from fractions import Fraction
import numpy as np
import core, gen
from core import DimArray
from .c08red import tok, untok, same
from .c06 import gen_arrays, lab_key, cell_index

ARITH = {"add": operator.add, "sub": operator.sub, "mul": operator.mul, "truediv": operator.truediv,
         "floordiv": operator.floordiv, "pow": operator.pow}
UFUNC = {"add": np.add, "sub": np.subtract, "mul": np.multiply, "truediv": np.true_divide, "floordiv": np.floor_divide,
         "pow": np.power}
CMPS = {"eq": operator.eq, "ne": operator.ne, "lt": operator.lt, "le": operator.le, "gt": operator.gt, "ge": operator.ge}
SPECIAL = {"nan": float("nan"), "inf": float("inf"), "-inf": float("-inf")}


def rand_cells(rng, n, integer=False, specials=True):
    """cells of one operand; `integer`: the operand is used as an exponent (the model of pow covers integer exponents)"""
    style = "int" if integer else rng.choice(["int", "int", "dyadic", "zero-one"])
    vals = []
    for _ in range(n):
        if style == "int":
            v = float(rng.randint(-3, 3))
        elif style == "dyadic":
            v = rng.randint(-24, 32) / 8.0
        else:
            v = float(rng.choice([0, 0, 1, 1, 2, -1]))
        vals.append(v + 0.0)       # never -0.0: the model has one zero
    how = rng.choice(["none", "one", "several", "several"]) if specials else "none"
    if n and how != "none":
        idx = [rng.randrange(n)] if how == "one" else rng.sample(range(n), max(1, min(n, rng.randint(1, max(2, n // 2)))))
        for i in idx:
            vals[i] = SPECIAL[rng.choice(["nan", "nan", "inf", "-inf"])]
    return [tok(v) for v in vals]


def shape_of(ad):
    return [len(a["labels"]) for a in ad["axes"]]


def size_of(ad):
    n = 1
    for k in shape_of(ad):
        n *= k
    return n


def gen_cases(prop, rng, tier):
    n = 800 if tier == "quick" else 20000
    ops = list(ARITH)
    cmps = list(CMPS)
    for k in range(n):
        r = rng.random()
        if r < 0.5:
            op = ops[k % len(ops)]
            arrays = [gen.clean(a) for a in gen_arrays(rng, n=2, maxrank=3, allow_empty=False)]
            for a in arrays:
                a["vkind"] = "f"
            yield {"op": "opx", "form": "arrays", "operator": op, "arrays": arrays,
                   "xvals": [rand_cells(rng, size_of(arrays[0]), integer=False),
                             rand_cells(rng, size_of(arrays[1]), integer=(op == "pow"))]}
        elif r < 0.8:
            op = ops[k % len(ops)]
            arr = gen.clean(gen.rand_array(rng, rank=rng.choice([0, 1, 2, 3]), maxn=3))
            arr["vkind"] = "f"
            form = rng.choice(["scalar", "scalar_rev", "nd", "nd"])
            shape = shape_of(arr)
            if form == "nd":
                j = rng.randint(0, len(shape))
                nds = shape[len(shape) - j:]
                q = rng.random()
                if nds and q < 0.25:
                    nds[rng.randrange(len(nds))] = 1
                elif q < 0.35:
                    nds = nds + [2] if rng.random() < 0.5 else [k2 + 1 for k2 in nds] or [2]     # does not broadcast / too many dims
            else:
                nds = []
            nn = 1
            for s in nds:
                nn *= s
            # exponent side: the scalar / ndarray for a ** s, the array for s ** a
            arr_is_exp = op == "pow" and form == "scalar_rev"
            oth_is_exp = op == "pow" and form != "scalar_rev"
            yield {"op": "opx", "form": form, "operator": op, "arrays": [arr],
                   "xvals": [rand_cells(rng, size_of(arr), integer=arr_is_exp)],
                   "ndshape": nds, "ndvals": rand_cells(rng, nn, integer=oth_is_exp, specials=rng.random() < 0.6),
                   "scalar_type": rng.choice(["python", "float64", "nd0"]) if form != "nd" else "-"}
        else:
            op = cmps[k % len(cmps)]
            # (rank >= 1: `0-d array == x` is a NumPy scalar, which __eq__ hands back as it is)
            arr = gen.clean(gen.rand_array(rng, rank=rng.choice([1, 2, 3]), maxn=3))
            arr["vkind"] = "f"
            other = rng.choice(["scalar", "nd", "same", "same", "differ"])
            if other == "differ" and not arr["axes"]:
                other = "same"
            nds = [] if other == "scalar" else shape_of(arr)
            nn = 1
            for s in nds:
                nn *= s
            xa = rand_cells(rng, size_of(arr))
            xb = rand_cells(rng, nn)
            # make equal cells likely
            for i in range(min(len(xa), len(xb))):
                if rng.random() < 0.4:
                    xb[i] = xa[i]
            if other == "scalar" and xa and rng.random() < 0.5:
                xb = [rng.choice(xa)]
            yield {"op": "opx", "form": "cmp", "operator": op, "arrays": [arr], "xvals": [xa], "other": other,
                   "ndshape": nds, "ndvals": xb}


def build(ad, xs):
    axes = [core.build_axis(a) for a in ad["axes"]]
    vals = np.array([untok(t) for t in xs], dtype=float).reshape(tuple(shape_of(ad)))
    return DimArray(vals, axes=axes)


def operands(c):
    a = build(c["arrays"][0], c["xvals"][0])
    if c["form"] == "arrays":
        return a, build(c["arrays"][1], c["xvals"][1])
    nd = np.array([untok(t) for t in c["ndvals"]], dtype=float).reshape(tuple(c["ndshape"]))
    if c["form"] in ("scalar", "scalar_rev"):
        t = c.get("scalar_type", "python")
        return a, (float(nd) if t == "python" else np.float64(nd) if t == "float64" else nd)
    if c["form"] == "cmp":
        if c["other"] == "scalar":
            return a, float(nd)
        if c["other"] == "nd":
            return a, nd
        if c["other"] == "same":
            return a, DimArray(nd, axes=[ax.copy() for ax in a.axes])
        # different axes: the first dimension renamed
        axes = [ax.copy() for ax in a.axes]
        axes[0].name = axes[0].name + "_"
        return a, DimArray(nd, axes=axes)
    return a, nd


def impl(c):
    toks = core.AttrTokens()
    a, b = operands(c)
    pyop = ARITH.get(c["operator"]) or CMPS[c["operator"]]
    before = [np.array(x.values if isinstance(x, DimArray) else x, dtype=float, copy=True) for x in (a, b)]

    def run():
        with warnings.catch_warnings():
            warnings.simplefilter("ignore")
            with np.errstate(all="ignore"):
                r = pyop(b, a) if c["form"] == "scalar_rev" else pyop(a, b)
        if isinstance(r, (bool, np.bool_)):
            return {"bool": bool(r)}
        o = core.obs_array(r, toks)
        o["is_dimarray"] = isinstance(r, DimArray)
        o["xv"] = [tok(v) for v in np.asarray(r.values if isinstance(r, DimArray) else r, dtype=float).reshape(-1)]
        o["dtype"] = np.asarray(r.values if isinstance(r, DimArray) else r).dtype.kind
        del o["values"]
        return o
    out = core.guarded(run)
    after = [np.asarray(x.values if isinstance(x, DimArray) else x, dtype=float) for x in (a, b)]
    if not all(x.shape == y.shape and np.array_equal(x, y, equal_nan=True) for x, y in zip(before, after)):
        out["operand_modified"] = True
    return out


def request(c):
    toks = core.AttrTokens()
    r = {"op": "opx", "arrays": [core.lean_array(gen.clean(a), toks) for a in c["arrays"]], "xvals": c["xvals"],
         "operator": c["operator"]}
    if c["form"] == "arrays":
        r["form"] = "arrays"
    elif c["form"] == "cmp":
        r.update({"form": "cmp", "ndshape": c["ndshape"], "ndvals": c["ndvals"], "same_axes": c["other"] != "differ"})
    else:
        r.update({"form": "nd", "ndshape": c["ndshape"], "ndvals": c["ndvals"], "flip": c["form"] == "scalar_rev"})
    return r


def expected_cell(op, x, y):
    """NumPy's ufunc on two float64 cells (None = missing operand).  The property's sentence: NaN where an operand is
    missing; made precise by the value model: the missing operand IS NaN and the ufunc decides (K01 for **)."""
    with np.errstate(all="ignore"):
        return float(UFUNC[op](np.float64(float("nan") if x is None else x), np.float64(float("nan") if y is None else y)))


def oracle_arrays(c, io):
    """the statement of C04 on concrete values: dims, label union, and every cell"""
    bad = []
    out = io["ok"]
    a_, b_ = operands(c)
    ia, ib = core.obs_array(a_, core.AttrTokens()), core.obs_array(b_, core.AttrTokens())
    da_, db_ = ia["dims"], ib["dims"]
    if out["dims"] != da_ + [d for d in db_ if d not in da_]:
        return ["dims"]
    for ax in out["axes"]:
        keys = [lab_key(l) for l in ax["labels"]]
        sets = [set(lab_key(l) for l in x["labels"]) for arr in (ia, ib) for x in arr["axes"] if x["name"] == ax["name"]]
        if len(set(keys)) != len(keys) or set(keys) != set.union(*sets):
            return ["axes.labels:set"]
    nan_only = True
    for flat, coord in enumerate(itertools.product(*[ax["labels"] for ax in out["axes"]])):
        cd = {ax["name"]: l for ax, l in zip(out["axes"], coord)}
        pa = cell_index(ia, {d: cd[d] for d in da_})
        pb = cell_index(ib, {d: cd[d] for d in db_})
        x = None if pa is None else untok(c["xvals"][0][pa])
        y = None if pb is None else untok(c["xvals"][1][pb])
        got = out["xv"][flat]
        if (pa is None or pb is None) and got != "nan":
            nan_only = False
        if not same(got, tok(expected_cell(c["operator"], x, y)), True):
            bad.append("values:op" if (pa is not None and pb is not None) else "values:missing")
            break
    if not nan_only and not bad:
        bad.append("values:nan_elsewhere")       # the sentence of the statement, literally (K01 when the operator is pow)
    return bad


def judge(prop, c, io, ans):
    lean = ans["lib"]
    bad, prop_bad = [], []
    # ---- model vs implementation
    if "ok" in lean and "bool" in lean["ok"]:
        if "err" in io:
            bad.append("outcome")
        elif io["ok"].get("bool") != lean["ok"]["bool"]:
            bad.append("values:bool")
    elif "ok" in lean:
        lo = dict(lean["ok"])
        cells = lo.pop("cells")
        if "err" in io or "bool" in io.get("ok", {}):
            bad.append("outcome")
        else:
            bad += core.diff_obs(io, {"ok": lo}, keys=("dims", "shape", "axes", "attrs"))
            got = io["ok"]["xv"]
            if len(got) != len(cells) or not all(same(g, w, True) for g, w in zip(got, cells)):
                bad.append("values")
    elif "ok" in io:
        bad.append("outcome")
    elif io["err"] != lean["err"]:
        bad.append("errclass")
    # ---- oracle from the statement
    if "ok" in io and "bool" not in io["ok"]:
        if not io["ok"].get("is_dimarray"):
            prop_bad.append("not_a_dimarray")
        a, b = operands(c)
        if c["form"] == "arrays":
            prop_bad += oracle_arrays(c, io)
        else:
            with np.errstate(all="ignore"):
                if c["form"] == "cmp":
                    nf = getattr(np, {"eq": "equal", "ne": "not_equal", "lt": "less", "le": "less_equal", "gt": "greater",
                                      "ge": "greater_equal"}[c["operator"]])
                    want = nf(a.values, np.asarray(b.values if isinstance(b, DimArray) else b))
                    if io["ok"].get("dtype") != "b":
                        prop_bad.append("dtype")
                elif c["form"] == "scalar_rev":
                    want = UFUNC[c["operator"]](np.asarray(b), a.values)
                else:
                    want = UFUNC[c["operator"]](a.values, np.asarray(b))
            wv = [tok(v) for v in np.asarray(want, dtype=float).reshape(-1)]
            if io["ok"]["xv"] != wv:
                prop_bad.append("values:numpy")
            ia = core.obs_array(a, core.AttrTokens())
            if [(x["name"], x["labels"]) for x in io["ok"]["axes"]] != [(x["name"], x["labels"]) for x in ia["axes"]]:
                prop_bad.append("axes:changed")
    elif "ok" in io:
        if c["form"] != "cmp" or c["other"] != "differ" or io["ok"]["bool"] != (c["operator"] == "ne"):
            prop_bad.append("outcome:bool")
    else:
        # errors the statement allows: an ndarray operand NumPy cannot broadcast / with more dimensions; ordering arrays
        # whose axes differ
        allowed = (c["form"] == "nd" and not nd_fits(c)) or \
                  (c["form"] == "cmp" and c["other"] == "differ" and c["operator"] not in ("eq", "ne"))
        if not allowed:
            prop_bad.append("outcome:" + io["err"])
        elif io["err"] != ("other" if c["form"] == "nd" and nd_broadcasts(c) else "value"):
            # (NumPy broadcasts a size-1 dimension of the DimArray against a longer ndarray: the constructor then refuses the
            # values for the unchanged axes with a plain Exception)
            prop_bad.append("errclass")
    if io.get("operand_modified"):
        prop_bad.append("operand_modified")
    if not bad and not prop_bad:
        return None
    return {"kind": "P" if prop_bad else "M", "differs": sorted(set(bad + prop_bad)), "msg": io.get("msg")}


def nd_fits(c):
    s, t = shape_of(c["arrays"][0]), c["ndshape"]
    if len(t) > len(s):
        return False
    return all(x == y or y == 1 for x, y in zip(s[len(s) - len(t):], t)) if t else True


def nd_broadcasts(c):
    s, t = shape_of(c["arrays"][0]), c["ndshape"]
    if len(t) > len(s):
        return False
    try:
        np.broadcast_shapes(tuple(s), tuple(t))
        return True
    except ValueError:
        return False


def known(c, io, ans, mm, open_ids):
    if "K05" in open_ids and "err" in io and io["err"] == "index" and ans["lib"].get("err") == "index":
        for d in set(ax["name"] for a in c["arrays"] for ax in a["axes"]):
            lens = [len(ax["labels"]) for a in c["arrays"] for ax in a["axes"] if ax["name"] == d]
            if 0 in lens and any(l > 0 for l in lens):
                return "K05"
    if "K01" in open_ids and c["operator"] == "pow" and c["form"] == "arrays" and mm["differs"] == ["values:nan_elsewhere"]:
        return "K01"
    return None


def features(c, io):
    sp = [t for xs in c["xvals"] + [c.get("ndvals", [])] for t in xs if isinstance(t, str)]
    return {"outcome": "err:" + io["err"] if "err" in io else ("bool" if "bool" in io["ok"] else "ok"), "op": "opx",
            "form": c["form"] if c["form"] != "cmp" else "cmp:" + c["other"], "operator": c["operator"],
            "specials": "none" if not sp else "some", "has_inf": any(t in ("inf", "-inf") for t in sp),
            "scalar_type": c.get("scalar_type", "-"),
            "ranks": "%d,%d" % (len(c["arrays"][0]["axes"]), len(c["arrays"][1]["axes"]) if len(c["arrays"]) > 1 else -1)}

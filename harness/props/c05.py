"""C05 - every produced array is well-formed and history-independent.

(a) constructor forms: all documented ways of giving the same axes build equal arrays; shape
    mismatches and duplicate names are rejected (`ctor`, `helper` against the Lean mirror; `ctor2`,
    `helper2`, `axset` - forms the mirror does not model - against an oracle written from the case);
(b) histories: an array that went through a sequence of operations answers further operations like a
    freshly built array with the same values / labels / dims (see `hist` cases); every live array and every
    variable of every live Dataset is well-formed at the end of the history;
(c) a monitor wraps DimArray.__init__ during the run and checks well-formedness of every array the
    library constructs.
"""
import copy, itertools, json, warnings
from collections import OrderedDict
import numpy as np
import core, gen
from core import da, Axis, DimArray, Dataset, MultiAxis
from dimarray.core.axes import Axes
from .base import Prop
from . import c05_cache

# ---------------------------------------------------------------- open defect candidates (see report)
# TODO(defect): a grouped axis (MultiAxis, result of flatten / reshape) shares its member Axis objects with the
# array it was made from and caches its tuple labels / name: relabelling or renaming a member (through ANY array that
# shares it, e.g. the source of the flatten) after the grouped labels were read leaves the grouped array answering
# with the old labels (`b = a.flatten(); b.labels; a.axes[0][0] = 99; b.labels` vs `b.unflatten().labels`).
# While this is open the history steps do not mutate an Axis that is a member of a live grouped axis.
SKIP_GROUPED_MEMBER_MUTATION = False
# TODO(defect): `a.axes = <list of label arrays | (name, labels) pairs | Axis objects>` with a wrong length or a wrong
# number of axes is accepted (only an `Axes` instance is size-checked): the array is left ill-formed. While this is
# open the `axset` stratum generates wrong sizes / counts only through the `Axes` form.
SKIP_AXES_SETTER_UNCHECKED = False
# TODO(defect): `Axis.sort()` (in-place sort of the labels) sets the cached monotonicity flag to True although
# `is_monotonic()` of a freshly built axis is STRICT: on labels with duplicates ([2, 1, 2] -> [1, 2, 2]) the sorted axis
# answers is_monotonic() == True (fresh: False) and every later union / arithmetic / align takes the sorted-merge path
# (np.union1d: duplicates dropped, labels re-ordered) instead of the concatenation path of a fresh array.
# While this is open the `sort_inplace` step skips axes whose labels are not all distinct.
SKIP_SORT_INPLACE_DUPLICATES = False
# TODO(defect): the 1-D shortcuts spelt with an EMPTY python list, `DimArray(v, axes=('x', []))` (TypeError) and
# `DimArray(v, axes=[], dims='x')` (read as "no axes": shape mismatch), are rejected although the same request with an
# empty ndarray is accepted (tools.is_array1d_equiv reads a[0]).  While this is open the list spellings need size >= 1.
SKIP_EMPTY_LIST_SHORTCUT = False
# TODO(defect): flatten / reshape return an array whose grouped axis cannot report its labels (`.values`, repr raise)
# (1) when one of the grouped dimensions has length 0 (IndexError in axes._flatten), (2) when one of the grouped
# dimensions is itself a grouped axis (NumPy 2: ValueError "inhomogeneous shape" in axes._flatten).
# While this is open the `flatten` / `reshape` steps group plain, non-empty dimensions only.
SKIP_FLATTEN_EMPTY_OR_NESTED = False


# ---------------------------------------------------------------- well-formedness (statement of the property)
def _flat_members(ax):
    out = []
    for m in ax.axes:
        if isinstance(m, MultiAxis):
            out += _flat_members(m)
        else:
            out.append(m)
    return out


def wf_problem(a, touch=True):
    """None when `a` is well-formed in the sense of the property (one 1-D axis per dimension, of the length of
    that dimension, distinct non-empty str names), else a short name of what is wrong.
    touch=False: do not read the lazily computed labels / size of a grouped axis (the monitor must not populate caches)"""
    try:
        axes = list(a.axes)
        vshape = tuple(np.shape(a.values))
        if len(axes) != len(vshape):
            return "axes_count"
        for i, ax in enumerate(axes):
            if isinstance(ax, MultiAxis) and not touch:
                n = 1
                for m in _flat_members(ax):
                    n *= int(m.values.size)
            else:
                if np.ndim(ax.values) != 1:
                    return "axis_not_1d"
                n = int(np.shape(ax.values)[0])
                if int(ax.size) != n:
                    return "axis_size"
            if n != vshape[i]:
                return "axis_length"
        dims = [ax.name for ax in axes]
        if not all(isinstance(d, str) and d for d in dims):
            return "dim_name"
        if len(set(dims)) != len(dims):
            return "dup_dim_name"
    except Exception as e:  # noqa
        return "unobservable:" + type(e).__name__
    return None


# ---------------------------------------------------------------- monitor (c)
MON = {"constructed": 0, "illformed": []}
_orig_init = DimArray.__init__


def _checked_init(self, *a, **k):
    _orig_init(self, *a, **k)
    MON["constructed"] += 1
    why = wf_problem(self, touch=False)
    if why and len(MON["illformed"]) < 5:
        MON["illformed"].append({"why": why, "dims": [getattr(ax, "name", None) for ax in self.axes], "shape": list(np.shape(self.values))})


def monitor_on():
    DimArray.__init__ = _checked_init


def monitor_off():
    DimArray.__init__ = _orig_init


FORMS = ["lists+dims", "pairs", "objs", "dict+dims", "labels_kw", "lists_nodims", "names", "none", "dict_nodims",
         "odict", "helper"]


def py_labels(ax):
    return core.label_array(ax["labels"], ax["kind"])


def build_variant(form, axes, values):
    """call the real constructor with one way of specifying the axes"""
    dims = [a["name"] for a in axes]
    labs = [py_labels(a) for a in axes]
    if form == "lists+dims":
        return DimArray(values, axes=labs, dims=dims)
    if form == "lists_list+dims":
        return DimArray(values, axes=[l.tolist() for l in labs], dims=dims)
    if form == "pairs":
        return DimArray(values, axes=list(zip(dims, labs)))
    if form == "objs":
        return DimArray(values, axes=[Axis(l, d) for l, d in zip(labs, dims)])
    if form == "dict+dims":
        return DimArray(values, axes=dict(zip(dims, labs)), dims=dims)
    if form == "dict_nodims":
        return DimArray(values, axes=dict(zip(dims, labs)))
    if form == "odict":
        return DimArray(values, axes=OrderedDict(zip(dims, labs)), dims=dims)
    if form == "labels_kw":
        return DimArray(values, labels=labs, dims=dims)
    if form == "lists_nodims":
        return DimArray(values, axes=labs)
    if form == "names":
        return DimArray(values, axes=list(dims))
    if form == "none+dims":
        return DimArray(values, dims=dims)
    if form == "none":
        return DimArray(values)
    raise ValueError(form)


def lean_variant(form, axes):
    dims = [a["name"] for a in axes]
    named = [{"name": a["name"], "labels": a["labels"], "kind": a["kind"]} for a in axes]
    unnamed = [{"labels": a["labels"], "kind": a["kind"]} for a in axes]
    if form in ("lists+dims", "lists_list+dims", "labels_kw"):
        return {"arg": {"form": "lists", "items": unnamed}, "dims": dims}
    if form == "pairs":
        return {"arg": {"form": "pairs", "items": named}, "dims": None}
    if form == "objs":
        return {"arg": {"form": "objs", "items": named}, "dims": None}
    if form in ("dict+dims", "odict"):
        return {"arg": {"form": "dict", "items": named}, "dims": dims}
    if form == "dict_nodims":
        return {"arg": {"form": "dict", "items": named}, "dims": None}
    if form == "lists_nodims":
        return {"arg": {"form": "lists", "items": unnamed}, "dims": None}
    if form == "names":
        return {"arg": {"form": "names", "items": dims}, "dims": None}
    if form == "none+dims":
        return {"arg": {"form": "none"}, "dims": dims}
    if form == "none":
        return {"arg": {"form": "none"}, "dims": None}
    raise ValueError(form)


# ---------------------------------------------------------------- forms the Lean mirror does not model (ctor2)
MASK_EVERY = 3      # masked forms: flat cell i is masked iff i % 3 == 1


def _py_label(l, kind):
    return core.dec_label(l, kind)


def _nest(vals, axes, level, mk):
    """values as nested mappings keyed by the labels (innermost: python scalars)"""
    if level == len(axes):
        return vals.item()
    ax = axes[level]
    return mk([(_py_label(l, ax["kind"]), _nest(vals[i], axes, level + 1, mk)) for i, l in enumerate(ax["labels"])])


def build_variant2(form, axes, values):
    """constructor forms outside the Lean mirror; `values` is an ndarray"""
    dims = [a["name"] for a in axes]
    labs = [py_labels(a) for a in axes]
    pairs = list(zip(dims, labs))
    objs = lambda: [Axis(l, d) for d, l in pairs]
    if form == "dtype_f":
        return DimArray(values, axes=pairs, dtype=float)
    if form == "dtype_f_list":
        return DimArray(values.tolist(), axes=labs, dims=dims, dtype=float)
    if form == "copy":
        r = DimArray(values, axes=pairs, copy=True)
        if isinstance(r.values, np.ndarray) and values.size and np.shares_memory(r.values, values):
            raise AssertionError("copy=True shares memory with the input")      # np.array(copy=True) semantics
        return r
    if form == "from_dimarray":
        return DimArray(DimArray(values, axes=objs()))
    if form == "from_dimarray_dtype":
        return DimArray(DimArray(values, axes=objs()), dtype=float)
    if form == "values+Axes":
        src = DimArray(values, axes=objs())
        return DimArray(src.values, src.axes)
    if form == "values+Axes_kw":
        return DimArray(values, axes=Axes(objs()))
    if form in ("masked", "masked_nomask"):
        m = (np.arange(values.size).reshape(values.shape) % MASK_EVERY == 1) if form == "masked" else np.zeros(values.shape, dtype=bool)
        return DimArray(np.ma.array(values, mask=m), axes=pairs)
    if form == "novalues_pairs":
        return DimArray(axes=pairs)
    if form == "novalues_lists":
        return DimArray(axes=labs, dims=dims)
    if form == "novalues_objs":
        return DimArray(axes=objs())
    # 1-D shortcuts
    if form == "tuple1d":
        return DimArray(values, axes=(dims[0], labs[0]))
    if form == "tuple1d_list":
        return DimArray(values, axes=(dims[0], labs[0].tolist()))
    if form == "arr1d+dim":
        return DimArray(values, axes=labs[0], dims=dims[0])
    if form == "list1d+dim":
        return DimArray(values, axes=labs[0].tolist(), dims=dims[0])
    if form == "labels1d+dim":
        return DimArray(values, labels=labs[0], dims=dims[0])
    # nested data
    if form == "nested_dict":
        return DimArray(_nest(values, axes, 0, dict), dims=dims)
    if form == "nested_odict":
        return DimArray(_nest(values, axes, 0, OrderedDict), dims=dims)
    if form == "from_nested_dict":
        return DimArray.from_nested(_nest(values, axes, 0, dict), dims=dims)
    if form == "list_of_dicts":
        return DimArray([_nest(values[i], axes, 1, dict) for i in range(values.shape[0])], dims=dims, labels=[labs[0]])
    if form == "list_of_dicts_axes":
        return DimArray([_nest(values[i], axes, 1, dict) for i in range(values.shape[0])], dims=dims, axes=[labs[0]])
    if form == "from_nested_lists":
        return DimArray.from_nested(values.tolist(), dims=dims, labels=labs)
    if form == "dict_of_arrays":
        a0 = axes[0]
        return DimArray(OrderedDict((_py_label(l, a0["kind"]), values[i]) for i, l in enumerate(a0["labels"])), dims=dims, labels=labs)
    if form == "dict_of_dimarrays":
        a0 = axes[0]
        return DimArray(OrderedDict((_py_label(l, a0["kind"]), DimArray(values[i], axes=pairs[1:])) for i, l in enumerate(a0["labels"])), dims=dims)
    raise ValueError(form)


def expected2(form, axes, values):
    """what the property demands of a well-formed request, written from the case: the dims, the labels and the
    values of the array every form must build"""
    v = values
    if form in ("dtype_f", "dtype_f_list", "from_dimarray_dtype"):
        v = values.astype(float)
    elif form == "masked":
        v = values.astype(float)
        v[np.arange(values.size).reshape(values.shape) % MASK_EVERY == 1] = np.nan      # "replace mask by NaN"
    elif form.startswith("novalues"):
        v = np.full(values.shape, np.nan)          # "empty data, filled with NaNs if dtype is float"
    out = {"dims": [a["name"] for a in axes], "shape": list(values.shape), "labels": [a["labels"] for a in axes],
           "values": [core.canon_value(x) for x in v.reshape(-1).tolist()]}
    if form in ("dtype_f", "dtype_f_list", "from_dimarray_dtype") or form.startswith("novalues"):
        out["vkind"] = "f"
    return out


def diff_expected(o, exp):
    bad = []
    if o["dims"] != exp["dims"]:
        bad.append("dims")
    if o["shape"] != exp["shape"]:
        bad.append("shape")
    if [a["name"] for a in o["axes"]] != exp["dims"]:
        bad.append("axes.name")
    if [a["labels"] for a in o["axes"]] != exp["labels"]:
        bad.append("axes.labels")
    if "values" in exp and o["values"] != exp["values"]:
        bad.append("values")
    if exp.get("vkind") and o["vkind"] != exp["vkind"]:
        bad.append("values.dtype")
    return bad


DUMMY = {"op": "construct_group", "shape": [], "vkind": "f", "variants": []}

# ---------------------------------------------------------------- histories
OLD_PROBES = {"dim": ["add", "radd", "align", "align_sort", "reindex", "sort_axis", "slice", "loc_first", "is_monotonic"], "arr": []}
DIM_PROBES = ["add", "radd", "align", "align_inner", "align_sort", "reindex", "sort_axis", "slice", "loc_first", "is_monotonic",
              "sum", "cumsum", "concat", "union", "intersection", "take_pos", "reindex_like"]
ARR_PROBES = ["repr", "flatten", "unflatten", "transpose", "stack", "dataset", "neg", "copy", "labels", "sizes", "eq"]
QUERIES = ["add_other", "is_monotonic", "align_other", "sort_axis", "reindex_other", "radd_other", "align_inner", "repr",
           "labels", "flat_labels", "sum", "union", "sizes", "sum_name", "swapaxes_name"]
STEP_W = [("query", 20), ("slice", 7), ("take", 5), ("transpose", 3), ("sort_key", 3), ("copy", 2), ("relabel", 8),
          ("set_values", 3), ("sort_inplace", 5), ("set_labels", 8), ("rename", 7), ("reduce", 5), ("cum", 3),
          ("flatten", 5), ("unflatten", 2), ("reshape", 2), ("newaxis", 2), ("squeeze", 1), ("swapaxes", 2),
          ("broadcast", 1), ("stack", 3), ("concat", 3), ("arith", 4), ("reindex", 3), ("reindex_like", 1), ("align", 3),
          ("dropna", 2), ("ctor_from", 4), ("index", 3), ("setitem", 6), ("ds_new", 4), ("ds_put", 2), ("ds_get", 3),
          ("ds_op", 3), ("ds_mut", 3)]
SET_VIA = ["values_setter", "values_setter", "set_axis_list", "set_axis_dict", "set_axis_fn", "labels_setter", "axes_setitem", "axis_set",
           "set_axis_copy"]
SET_HOW = ["rev", "rot", "rot", "neg", "shift", "same", "sorted", "sorted", "swap", "longer"]
MAX_ENV, MAX_DS, MAX_CELLS, MAX_PROBED = 12, 3, 400, 9


class HistState:
    def __init__(self, env):
        self.env = env
        self.dss = []
        self.n = 0          # counter behind fresh dimension / variable names
        self.problems = []  # a step that visibly did something else than asked (reported like an ill-formed array)

    def fresh(self, p):
        self.n += 1
        return "%s%d" % (p, self.n)

    def arrays(self):
        out, seen = [], set()
        for a in self.env + [v for ds in self.dss for v in ds.values()]:
            if id(a) not in seen:
                seen.add(id(a))
                out.append(a)
        return out

    def is_live_member(self, ax):
        for arr in self.arrays():
            if not isinstance(arr, DimArray):
                continue
            for g in arr.axes:
                if isinstance(g, MultiAxis) and any(m is ax for m in _flat_members(g)):
                    return True
        return False


def _is_num(vals):
    return vals.dtype.kind in "iuf"


def _obj_array(items):
    out = np.empty(len(items), dtype=object)
    for i, v in enumerate(items):
        out[i] = v
    return out


def fresh_of(a):
    """a freshly constructed array with the same values, labels and dims"""
    def fa(ax):
        if isinstance(ax, MultiAxis):
            return MultiAxis(*[fa(m) for m in ax.axes])
        return Axis(np.array(ax.values, copy=True), ax.name)
    # (C order: "the same values" is about the logical array, a fresh array does not inherit the memory layout)
    return DimArray(np.array(a.values, copy=True, order="C"), axes=[fa(ax) for ax in a.axes])


def conv(r):
    """result of a probe -> comparable observation"""
    if isinstance(r, DimArray):
        return core.obs_array(r)
    if isinstance(r, Dataset):
        return {"dataset": [[str(k), core.obs_array(v)] for k, v in r.items()]}
    if isinstance(r, (list, tuple)):
        return [conv(x) for x in r]
    if isinstance(r, np.ndarray):
        return [core.enc_label(v) for v in (r.tolist() if r.dtype.kind != "O" else list(r.reshape(-1)))]
    if isinstance(r, np.generic):
        return core.canon_value(r)
    return r


class C05(Prop):
    id = "C05"
    theorems = ["appendAll_ok_iff", "appendAll_rejects_duplicates", "initAxes_forms_agree", "construct_wf",
                "construct_rejects_shape", "take_wf", "takeAxisPos_wf", "take_all_wf", "put_wf", "putBool_wf", "reindexAxis_wf", "reindexLike_wf", "sortAxis_wf",
                "align_wf", "operation_wf", "operationNd_wf", "transpose_wf", "swapaxes_wf", "rollaxis_wf",
                "squeeze_wf", "newaxis_wf", "repeatAxis_wf", "broadcast_wf", "broadcastArrays_wf", "flatten_wf",
                "unflattenAll_wf", "reshape_wf", "stack_wf", "concatenate_wf", "reduceAxis_wf", "argAxis_wf",
                "cumAxis_wf", "diffAxis_wf", "takeAxis_wf", "compressAxis_wf", "dropna_wf", "fillna_wf",
                "setna_wf", "interpAxis_wf", "DSV.takeDs_wf", "DSV.takeAxisPosDs_wf", "DSV.sortAxisDs_wf", "DSV.reindexAxisDs_wf",
                "DSV.reduceDs_wf", "DSV.interpAxisDs_wf", "DSV.setItem_wf", "DSV.fromVars_wf", "DSV.copyDs_wf", "DSV.binaryOpDs_scalar_wf",
                "DSV.binaryOpDs_ds_wf", "DSV.stackDs_wf", "DSV.concatenateDs_wf",
                "AxisCache.coherent_init", "AxisCache.coherent_step", "AxisCache.coherent_run",
                "AxisCache.slice_keeps_monotonic", "AxisCache.query_history_independent",
                "AxisCache.union_history_independent", "AxisCache.sort_sets_true_counterexample",
                "AxisCache.forgetSt_coherent", "AxisCache.step_forget", "AxisCache.run_bisim", "AxisCache.forgetSt_is_fresh_heap",
                "AxisCache.run_history_independent", "AxisCache.step_forget_incoherent_counterexample",
                "GroupedCache.grouped_coherent_init", "GroupedCache.grouped_coherent_step", "GroupedCache.grouped_coherent_run",
                "GroupedCache.flatten_isolated_from_source", "GroupedCache.grouped_size_survives_member_mutation", "GroupedCache.grouped_stale_after_member_relabel_counterexample",
                "GroupedCache.flatten_stale_after_member_relabel_counterexample",
                "GroupedCache.grouped_name_stale_after_member_rename_counterexample",
                "GroupedCache.grouped_take_read_independent", "GroupedCache.grouped_take_fills", "GroupedCache.grouped_setitem_incoherent_counterexample"]
    rule = ("(a) constructor groups: one set of axes (rank 0-4, sizes 0-4, int/float/str labels) given through every "
            "documented form (label lists + dims, lists as python lists, (name, labels) pairs, Axis objects, dict + dims, "
            "OrderedDict, dict without dims, labels= keyword, names only, nothing) with values as ndarray / nested list / "
            "scalar, plus malformed variants (wrong length on one axis, duplicate or empty names, too few dims); the "
            "helpers zeros/ones/empty/nans; ctor2 (oracle only): dtype= / copy= / values=<DimArray> / (values, Axes) / masked "
            "arrays / no values / the 1-D shortcuts / nested dicts, lists of dicts, dicts of arrays and of DimArrays, from_nested; "
            "helper2: shape=, dtype=, *_like; axset: the `axes` setter (accepted forms, rejected sizes / counts / duplicate names); "
            "(b) histories over 1-2 arrays of rank 1-3 with int/float/str labels: queries, position slices / takes, transposes, "
            "keyed sorts, copies, relabelling through every setter (incl. wrong lengths, which must be refused), renaming through "
            "every setter, in-place sort of an axis, assignment (values setter, label / position / put / boolean / fill), reductions, "
            "cumulatives, flatten / unflatten / reshape, newaxis / squeeze / swapaxes / broadcast, stack / concatenate, arithmetic, "
            "reindex / align, dropna / fillna, DimArray(a) / *_like, Dataset insertion / extraction / operations; systematic grids "
            "(every label setter x kind of new labels on a cache-primed axis; every derivation followed by a change of the derived "
            "array's labels / name) plus random histories; then every live array and every Dataset variable is checked for "
            "well-formedness and probed against a freshly built equal array; (b2) grouped: one flatten of two dimensions "
            "(any order, rank 2-3), then a selection along the grouped axis (position slice / list, boolean mask through "
            "compress_axis and [], dropna, diff by position and by tuple of names, slicing the axis, is_monotonic) compared "
            "with the same operation on a freshly constructed array holding the same tuple labels on a plain axis; "
            "(b3) cache: histories (all sequences of 2 / 3 operations of a 17-letter alphabet from 9 starts, plus random ones of "
            "3-16 steps over 1-5 live objects, int / float / str labels, sizes 0-4) of the public operations on real Axis objects "
            "(plain, or a.axes[0] of a DimArray) that write, copy or read the cached `_monotonic`: construct, values setter, ax[pos]=v "
            "(incl. refused ones: out-of-range positions, wrong number of labels, integer labels beyond 2**53 next to a float value - nothing may change), ax[:]=labels, ax[slice] (incl. ax[:] returning the object itself), "
            "ax[list], ax[int], take, is_monotonic, copy, sort, cast (also to the kind the axis already has), union, intersection (incl. results that ARE an operand); after "
            "EVERY step the result, and labels / dtype kind / `_monotonic` of every live object are compared with the Lean state "
            "machine AxisCache.step; class P when a cached flag differs from the strict monotonicity of the labels or when "
            "is_monotonic / union / intersection answer differently from freshly constructed axes; "
            "(b4) gcache: histories of 5-17 steps on real MultiAxis objects, built directly (members by reference) or through "
            "DimArray(axes=<these Axis objects>).flatten(dims) (members are copies; 2-3 members, int / str labels, sizes 1-3): read labels / "
            "size / name, slices (g[:] is g), take, copy, unflatten, relabelling / renaming of plain axes that are NOT members of a live "
            "grouped axis (incl. the source axes of a flatten); after EVERY step result, labels / name of every plain axis and members "
            "(by object identity), `_name`, `_values`, `_size` of every grouped axis are compared with the Lean machine GroupedCache.step; "
            "class P when a cached field differs from a fresh MultiAxis of the same members or b.unflatten() differs from the members; "
            "parked behind SKIP_GROUPED_MEMBER_MUTATION / SKIP_GROUPED_PRIVATE_VALUES (open defects, Lean counterexamples): relabel / rename of "
            "a member, take / item assignment before the first read, item assignment; "
            "(c) DimArray.__init__ wrapped during the run: every array the library constructs is checked for well-formedness. "
            "Non-trivial = rank >= 1; distinct = canonical JSON")
    assumptions = ["dimension names are comma-free non-empty strings (the quantifier of the property)",
                   "cache stratum: one label family per axis (numbers or strings, NaN-free, |int| < 2**53); labels are not written "
                   "through the exposed ndarray `ax.values[k] = v` (that bypasses every setter and is outside the state machine)"]

    def mirrors(self):
        from dimarray.core import axes, dimarraycls
        return {"_init_axes": axes._init_axes, "Axes.append": axes.Axes.append, "Axes.from_dict": axes.Axes.from_dict,
                "Axes.from_arrays": axes.Axes.from_arrays, "Axes.from_shape": axes.Axes.from_shape,
                "DimArray.__init__": dimarraycls.DimArray.__init__, "_check_axis_values": axes._check_axis_values}

    # ------------------------------------------------------------ generation
    def gen_ctor(self, rng):
        rank = rng.choice([0, 1, 1, 2, 2, 3, 4])
        arr = gen.rand_array(rng, rank=rank, maxn=4)
        axes = [gen.clean(a) for a in arr["axes"]]
        vkind = arr["vkind"]
        malformed = None
        r = rng.random()
        if r < 0.12 and rank >= 1:
            malformed = "size"       # the values have another extent than the labels along one dimension
        elif r < 0.2 and rank >= 2:
            malformed = "dupname"
            axes[1]["name"] = axes[0]["name"]
        elif r < 0.24 and rank >= 1:
            malformed = "emptyname"
            axes[rng.randrange(rank)]["name"] = ""
        elif r < 0.34 and rank >= 1:
            malformed = "rank"       # the values have more / fewer dimensions than there are axes (leading sizes agree)
        shape = [len(a["labels"]) for a in axes]
        if malformed == "rank":
            if rng.random() < 0.6 or rank == 1:
                shape = shape + [rng.choice([1, 2, 3])]
            else:
                shape = shape[:-1]
        if malformed == "size":
            d = rng.randrange(rank)
            shape[d] += 1
        forms = ["lists+dims", "lists_list+dims", "pairs", "objs", "dict+dims", "odict", "labels_kw"]
        # forms that do not carry the labels are compared with the default labelling
        return {"op": "ctor", "axes": axes, "shape": shape, "vkind": vkind, "forms": forms,
                "values_as": rng.choice(["ndarray", "ndarray", "list", "list"]), "_malformed": malformed}

    def gen_default(self, rng):
        rank = rng.choice([0, 1, 2, 3])
        shape = [rng.randint(0, 3) for _ in range(rank)]
        names = rng.sample(gen.DIMS, rank)
        axes = [{"name": n, "kind": "i", "labels": [["n", i, 1] for i in range(s)]} for n, s in zip(names, shape)]
        # a list holding ONE string is read as the labels of a 1-D array by _init_axes, so the
        # names-only form (not among the documented forms of the property) is exercised for rank != 1
        forms = ["names", "none+dims"] if rank != 1 else ["none+dims"]
        return {"op": "ctor", "axes": axes, "shape": shape, "vkind": rng.choice(["f", "i"]), "forms": forms,
                "values_as": rng.choice(["ndarray", "list", "scalar" if rank == 0 else "list"]), "_malformed": None,
                "_default": True}

    def gen_xnames(self, rng):
        rank = rng.choice([0, 1, 2, 3])
        shape = [rng.randint(0, 3) for _ in range(rank)]
        axes = [{"name": "x%d" % i, "kind": "i", "labels": [["n", k, 1] for k in range(s)]} for i, s in enumerate(shape)]
        return {"op": "ctor", "axes": axes, "shape": shape, "vkind": rng.choice(["f", "i"]), "forms": ["none", "lists_nodims"],
                "values_as": rng.choice(["ndarray", "list", "scalar" if rank == 0 else "ndarray"]), "_malformed": None,
                "_default": True}

    def gen_helper(self, rng):
        rank = rng.choice([1, 2, 3])
        arr = gen.rand_array(rng, rank=rank, maxn=3)
        return {"op": "helper", "axes": [gen.clean(a) for a in arr["axes"]], "helper": rng.choice(["zeros", "ones", "empty", "nans"]),
                "form": rng.choice(["lists+dims", "pairs", "objs"])}

    def gen_ctor2(self, rng):
        """constructor forms outside the Lean mirror, judged by the oracle alone"""
        r = rng.random()
        malformed = None
        if r < 0.3:
            # the 1-D shortcuts
            rank = 1
            arr = gen.rand_array(rng, rank=1, maxn=4)
            forms = ["tuple1d", "tuple1d_list", "arr1d+dim", "list1d+dim", "labels1d+dim"]
            if SKIP_EMPTY_LIST_SHORTCUT and not arr["axes"][0]["labels"]:
                forms = ["tuple1d", "arr1d+dim", "labels1d+dim"]       # TODO(defect): see SKIP_EMPTY_LIST_SHORTCUT
            if rng.random() < 0.25:
                malformed = "size"
        elif r < 0.65:
            # nested data: every label keys a sub-mapping (sizes >= 1)
            rank = rng.choice([1, 2, 2, 3])
            arr = gen.rand_array(rng, rank=rank, maxn=3, minn=1)
            forms = ["nested_dict", "nested_odict", "from_nested_dict", "from_nested_lists"]
            if rank >= 2:
                forms += ["list_of_dicts", "list_of_dicts_axes", "dict_of_dimarrays"]
            if rank == 2:
                forms += ["dict_of_arrays"]
            if rank >= 2 and rng.random() < 0.15:
                malformed = "dupname"
        else:
            rank = rng.choice([0, 1, 2, 2, 3])
            arr = gen.rand_array(rng, rank=rank, maxn=4)
            forms = ["dtype_f", "dtype_f_list", "copy", "from_dimarray", "from_dimarray_dtype", "values+Axes", "values+Axes_kw",
                     "masked", "masked_nomask", "novalues_pairs", "novalues_lists", "novalues_objs"]
            q = rng.random()
            if q < 0.15 and rank >= 1:
                malformed = "size"
                forms = ["dtype_f", "copy", "masked", "masked_nomask", "values+Axes_kw"]
            elif q < 0.3 and rank >= 2:
                malformed = "dupname"
                forms = ["dtype_f", "copy", "masked", "novalues_pairs", "novalues_lists", "novalues_objs"]
        axes = [gen.clean(a) for a in arr["axes"]]
        shape = [len(a["labels"]) for a in axes]
        if 0 in shape and len(shape) >= 2:
            forms = [f for f in forms if f != "dtype_f_list"]      # a nested list cannot express a shape such as (0, 3)
        if malformed == "dupname":
            axes[1]["name"] = axes[0]["name"]
        if malformed == "size":
            shape[rng.randrange(rank)] += 1
        return {"op": "ctor2", "axes": axes, "shape": shape, "vkind": arr["vkind"], "forms": forms, "_malformed": malformed}

    def gen_helper2(self, rng):
        rank = rng.choice([1, 2, 3])
        arr = gen.rand_array(rng, rank=rank, maxn=3)
        helper = rng.choice(["zeros", "ones", "empty", "nans"])
        form = rng.choice(["shape+dims", "shape", "pos_pairs", "dtype", "like", "like_dtype", "axes+shape", "axes+shape_bad"])
        if helper == "nans" and form in ("dtype", "like_dtype"):
            form = "like"
        return {"op": "helper2", "axes": [gen.clean(a) for a in arr["axes"]], "helper": helper, "form": form,
                "dtype": rng.choice(["int", "bool", "float"]), "vkind": arr["vkind"]}

    def gen_axset(self, rng):
        """assignment to the `axes` attribute: accepted when the sizes agree, rejected otherwise"""
        rank = rng.choice([1, 2, 2, 3])
        arr = gen.rand_array(rng, rank=rank, maxn=4)
        old = [gen.clean(a) for a in arr["axes"]]
        names = rng.sample(gen.DIMS + ["u", "v"], rank)
        new = [gen.clean(gen.rand_axis(rng, n, n=len(o["labels"]))) for n, o in zip(names, old)]
        form = rng.choice(["lists", "pairs", "objs", "Axes", "Axes"])
        malformed = None
        r = rng.random()
        if r < 0.3:
            malformed = "size"
            d = rng.randrange(rank)
            new[d] = gen.clean(gen.rand_axis(rng, names[d], n=len(old[d]["labels"]) + rng.choice([1, 2])))
        elif r < 0.4:
            malformed = "count"
            if rng.random() < 0.5 and rank >= 2:
                new = new[:-1]
            else:
                new = new + [gen.clean(gen.rand_axis(rng, "t", n=1))]
        elif r < 0.5 and rank >= 2 and form != "lists":
            malformed = "dupname"
            new[1]["name"] = new[0]["name"]
            form = rng.choice(["pairs", "objs"])       # (an Axes object with duplicate names cannot be built)
        if malformed in ("size", "count") and SKIP_AXES_SETTER_UNCHECKED:
            form = "Axes"          # TODO(defect): see SKIP_AXES_SETTER_UNCHECKED
        return {"op": "axset", "axes": old, "new": new, "vkind": arr["vkind"], "form": form, "_malformed": malformed}

    GROUPED_PROBES = ["ix_slice", "ix_list", "compress_axis", "getitem_mask", "dropna", "is_monotonic", "axis_slice", "diff", "diff_tuple"]

    def gen_grouped(self, rng):
        """one flatten, then an operation that selects along the grouped axis: the flattened array must answer like a
        freshly constructed array with the same values, labels (tuples) and dims (the grouped axis' cached ordering
        state is part of what `Axis.__getitem__` reads)"""
        rank = rng.choice([2, 2, 3])
        arr = gen.clean(gen.rand_array(rng, rank=rank, maxn=3, minn=1, vkind="f"))
        i, j = rng.sample(range(rank), 2)
        shape = [len(a["labels"]) for a in arr["axes"]]
        n = 1
        for m in shape:
            n *= m
        return {"op": "grouped", "axes": arr["axes"], "vkind": "f", "group": [i, j], "probe": rng.choice(self.GROUPED_PROBES),
                "nan_at": sorted(rng.sample(range(n), rng.randint(0, min(2, n))))}

    def gen_hist(self, rng, tier="quick"):
        """a history of derivations, queries, relabellings, renamings and assignments over a few live arrays and
        Datasets, then probes.  Every index of a step is reduced modulo the extent it addresses when the step runs."""
        rank = rng.choice([1, 1, 2, 2, 2, 3])
        kinds = [rng.choice(["i", "i", "f", "O"]) for _ in range(rank)]
        arr = gen.clean(gen.rand_array(rng, rank=rank, maxn=5 if rank < 3 else 3, minn=2, kinds=kinds))
        arr["vkind"] = rng.choice(["f", "f", "i"])
        more = []
        if rng.random() < 0.5:
            # a second array over (some of) the same dimensions, with overlapping labels
            sub = rng.sample(range(rank), rng.randint(1, rank))
            axes2 = []
            for i in sorted(sub):
                ax = arr["axes"][i]
                axes2.append(gen.clean(gen.rand_axis(rng, ax["name"], kind=ax["kind"], maxn=4, minn=1)))
            more.append({"axes": axes2, "vkind": rng.choice(["f", "i"])})
        # a theme multiplies the weight of one family of steps (Datasets, grouped axes, label / name setters, views)
        theme = rng.choice([None, None, "ds", "grouped", "labels", "views"])
        fam = {"ds": ("ds_new", "ds_put", "ds_get", "ds_op", "ds_mut"), "grouped": ("flatten", "unflatten", "reshape", "query", "relabel"),
               "labels": ("relabel", "set_labels", "rename", "sort_inplace", "query", "transpose", "ctor_from"),
               "views": ("slice", "take", "index", "relabel", "set_labels", "sort_inplace", "query")}.get(theme, ())
        names = [s for s, w in STEP_W for _ in range(w * (4 if s in fam else 1))]
        steps = []
        ri = lambda: rng.randrange(12)
        for _ in range(rng.randint(2, 8)):
            t = rng.choice(names)
            k = ri()
            if t == "query":
                steps.append(["query", k, rng.choice(QUERIES), ri()])
            elif t == "slice":
                lo = rng.randint(0, 4)
                d = ri()
                if rng.random() < 0.5:
                    steps.append(["query", k, "is_monotonic", d])
                steps.append(["slice", k, d, lo, rng.randint(lo, 5)])
            elif t == "take":
                d = ri()
                if rng.random() < 0.5:
                    steps.append(["query", k, "is_monotonic", d])
                steps.append(["take", k, d, [ri() for _ in range(rng.randint(1, 3))]])
            elif t in ("transpose", "copy", "unflatten", "squeeze"):
                steps.append([t, k])
            elif t == "sort_key":
                steps.append(["sort_key", k, ri(), rng.choice([2, 4, 6])])
            elif t in ("relabel", "sort_inplace", "set_labels") and rng.random() < 0.7:
                # the cached state of the axis about to be changed is populated first (same array, same dimension)
                d = ri()
                steps.append(["query", k, rng.choice(["is_monotonic", "is_monotonic", "add_other", "union", "align_other", "labels"]), d])
                if t == "relabel":
                    steps.append(["relabel", k, d, ri(), rng.choice([-7, 50, 3, 12, 2.5])])
                elif t == "sort_inplace":
                    steps.append(["sort_inplace", k, d])
                else:
                    steps.append(["set_labels", k, d, rng.choice(SET_VIA), rng.choice(SET_HOW)])
            elif t == "relabel":
                steps.append(["relabel", k, ri(), ri(), rng.choice([-7, 50, 3, 12, 2.5])])
            elif t == "set_values":
                steps.append(["set_values", k, rng.choice(["nan", "float", "row", "int"])])
            elif t == "sort_inplace":
                steps.append(["sort_inplace", k, ri()])
            elif t == "set_labels":
                steps.append(["set_labels", k, ri(), rng.choice(SET_VIA), rng.choice(SET_HOW)])
            elif t == "rename":
                if rng.random() < 0.6:
                    steps.append(["query", k, rng.choice(["sum_name", "swapaxes_name"]), ri()])
                steps.append(["rename", k, ri(), rng.choice(["name_setter", "set_axis_name", "dims_setter", "dims_dict", "axis_set_name",
                                                             "axes_setitem", "set_axis_copy", "dims_swap", "dims_swap_dict", "dims_dup",
                                                             "dims_dup_dict", "dims_dup_partial"])])
            elif t == "reduce":
                steps.append(["reduce", k, ri(), rng.choice(["sum", "mean", "min", "max", "median", "prod", "std"])])
            elif t == "cum":
                steps.append(["cum", k, ri(), rng.choice(["cumsum", "cumprod", "diff"])])
            elif t == "flatten":
                steps.append(["flatten", k, rng.choice(["all", "pair", "pair"]), ri(), ri()])
            elif t == "reshape":
                steps.append(["reshape", k, ri(), ri()])
            elif t == "newaxis":
                steps.append(["newaxis", k, ri(), rng.choice([0, 0, 2])])
            elif t == "swapaxes":
                steps.append(["swapaxes", k, ri(), ri()])
            elif t in ("broadcast", "reindex_like"):
                steps.append([t, k, ri()])
            elif t == "stack":
                steps.append(["stack", k, ri(), rng.choice(["keys", "nokeys"])])
            elif t == "concat":
                steps.append(["concat", k, ri(), ri(), rng.choice([0, 1])])
            elif t == "arith":
                steps.append(["arith", k, ri(), rng.choice(["add_env", "mul_env", "mul2", "neg", "add_other", "gt_env"]), ri()])
            elif t == "reindex":
                steps.append(["reindex", k, ri(), rng.choice(["other", "rev", "sub"])])
            elif t == "align":
                steps.append(["align", k, ri(), rng.choice(["outer", "inner"]), rng.choice([0, 0, 1])])
            elif t == "dropna":
                steps.append(["dropna", k, ri(), rng.choice(["dropna", "fillna"])])
            elif t == "ctor_from":
                steps.append(["ctor_from", k, rng.choice(["DimArray", "values+Axes", "zeros_like", "ones_like", "nans_like"])])
            elif t == "index":
                steps.append(["index", k, ri(), ri(), rng.choice(["label", "pos", "getitem"])])
            elif t == "setitem":
                steps.append(["setitem", k, ri(), ri(), rng.choice(["label", "ix", "put", "bool", "fill"]), rng.choice([7, 2.5, "nan"])])
            elif t == "ds_new":
                steps.append(["ds_new", k])
            elif t == "ds_put":
                steps.append(["ds_put", ri(), k])
            elif t == "ds_get":
                steps.append(["ds_get", ri(), ri()])
            elif t == "ds_op":
                steps.append(["ds_op", ri(), rng.choice(["take_pos", "mean", "sort_axis", "reindex", "copy", "to_array"]), ri(), ri()])
            elif t == "ds_mut":
                steps.append(["ds_mut", ri(), rng.choice(["set_axis_vals", "set_axis_longer", "rename_axes", "set_axis_name", "del", "axes_relabel",
                                                           "axes_setitem_longer"]), ri(), ri()])
        probes = {"dim": ["is_monotonic", "sum_name"] + rng.sample(DIM_PROBES[:9] + DIM_PROBES[10:], 6 if tier == "quick" else 10),
                  "arr": ["labels", "transpose_names", "flatten"] + rng.sample([p for p in ARR_PROBES if p not in ("labels", "flatten")], 3 if tier == "quick" else 6)}
        out = {"op": "hist", "array": arr, "steps": steps, "forms": [], "probes": probes, "theme": theme}
        if more:
            out["more"] = more
        return out

    def gen_grid(self, rng, tier):
        """short systematic histories: (A) every label setter x every kind of new labels on an axis whose cached state
        was populated; (B) every derivation followed by a change of the labels / name of the DERIVED array (its axes may
        be shared with the source), both arrays' caches populated first"""
        def base(rank, order):
            kinds = [rng.choice(["i", "f", "O"]) for _ in range(rank)]
            dims = rng.sample(gen.DIMS, rank)
            axes = [gen.clean(gen.rand_axis(rng, d, kind=k, n=rng.choice([3, 4]), order=order if i == 0 else None)) for i, (d, k) in enumerate(zip(dims, kinds))]
            return {"axes": axes, "vkind": rng.choice(["f", "i"])}
        cheap = {"dim": ["is_monotonic", "add", "union", "align", "sort_axis", "loc_first"], "arr": ["labels", "sizes", "repr"]}
        for via in sorted(set(SET_VIA)):
            for how in ("rot", "sorted", "swap", "longer"):
                for order in ("inc", "shuf"):
                    if (how == "sorted") == (order == "inc") and how != "longer":
                        continue            # (sorting sorted labels / unsorting unsorted ones changes no cached answer)
                    yield {"op": "hist", "array": base(rng.choice([1, 2]), order), "forms": [], "probes": cheap, "theme": "gridA",
                           "steps": [["query", 0, rng.choice(["is_monotonic", "add_other", "union"]), 0], ["set_labels", 0, 0, via, how]]}
        # (C) a call that resolves a dimension BY NAME, an in-place renaming that moves that name to another position, then
        # name-based probes on the same object (anything remembered per object about names must follow the renaming)
        byname = {"dim": ["sum_name", "is_monotonic"], "arr": ["transpose_names", "labels", "flatten"]}
        for rank in (2, 3, 3):
            for q in ("swapaxes_name", "sum_name"):
                for via in ("dims_swap", "dims_swap_dict", "dims_dup_partial", "dims_dup_dict"):
                    yield {"op": "hist", "array": base(rank, rng.choice(["inc", "shuf"])), "forms": [], "probes": byname, "theme": "gridC",
                           "steps": [["query", 0, q, rng.randrange(rank)], ["rename", 0, rng.randrange(rank), via]]}
        derivs = [["slice", 0, 0, 0, 3], ["slice", 0, 0, 1, 4], ["take", 0, 0, [0, 1, 2]], ["take", 0, 0, [2, 0, 1]], ["index", 0, 1, 0, "pos"],
                  ["index", 0, 1, 1, "label"], ["transpose", 0], ["copy", 0], ["squeeze", 0], ["newaxis", 0, 0, 0], ["swapaxes", 0, 0, 1],
                  ["reduce", 0, 1, "sum"], ["cum", 0, 1, "cumsum"], ["reindex", 0, 1, "rev"], ["sort_key", 0, 0, 4], ["arith", 0, 0, "mul2", 0],
                  ["arith", 0, 0, "neg", 0], ["dropna", 0, 0, "fillna"], ["set_labels", 0, 1, "set_axis_copy", "same"], ["ds_get", 0, 0],
                  ["align", 0, 0, "outer", 0], ["broadcast", 0, 0], ["setitem", 0, 0, 0, "ix", 7]] + \
                 [["ctor_from", 0, h] for h in ("DimArray", "values+Axes", "zeros_like", "ones_like", "nans_like")]
        muts = [lambda d: ["relabel", 1, d, rng.randrange(3), rng.choice([-7, 50, 2.5])], lambda d: ["sort_inplace", 1, d],
                lambda d: ["set_labels", 1, d, "values_setter", rng.choice(["rot", "sorted", "swap"])],
                lambda d: ["rename", 1, d, rng.choice(["name_setter", "dims_dict", "set_axis_name"])]]
        for dv in derivs:
            for mi, mut in enumerate(muts):
                core_dv = dv[0] in ("slice", "take", "transpose", "ctor_from", "squeeze", "copy", "ds_get")
                if tier == "quick" and not core_dv and rng.random() < 0.45:
                    continue
                # (a position slice used to hand out a VIEW of the parent's labels: more draws for that family)
                for _ in range(3 if dv[0] == "slice" and mi in (0, 2) else 1):
                    d = 0 if dv[0] in ("slice", "take") and rng.random() < 0.8 else rng.choice([0, 0, 1])
                    order = rng.choice(["inc", "dec", "shuf"]) if mi != 1 else "shuf"
                    steps = [["query", 0, "is_monotonic", 0], ["query", 0, "is_monotonic", 1]]
                    if dv[0] == "ds_get":
                        steps.append(["ds_new", 0])
                    steps += [dv, ["query", 1, "is_monotonic", 0], ["query", 1, "is_monotonic", 1], mut(d)]
                    yield {"op": "hist", "array": base(2, order), "forms": [], "probes": cheap, "theme": "gridB", "steps": steps}

    def gen(self, rng, tier):
        quick = tier == "quick"
        for c in self.gen_grid(rng, tier):
            yield c
        if not quick:
            for _ in range(6):
                for c in self.gen_grid(rng, tier):
                    yield c
        for _ in range(230 if quick else 8000):
            yield self.gen_hist(rng, tier)
        for _ in range(500 if quick else 8000):
            r = rng.random()
            if r < 0.6:
                yield self.gen_ctor(rng)
            elif r < 0.75:
                yield self.gen_default(rng)
            elif r < 0.88:
                yield self.gen_xnames(rng)
            else:
                yield self.gen_helper(rng)
        for _ in range(120 if quick else 2000):
            yield self.gen_grouped(rng)
        for c in c05_cache.gen_cache(rng, tier):
            yield c
        for _ in range(600 if quick else 6000):
            r = rng.random()
            if r < 0.5:
                yield self.gen_ctor2(rng)
            elif r < 0.75:
                yield self.gen_helper2(rng)
            else:
                yield self.gen_axset(rng)

    # ------------------------------------------------------------ implementation side
    def values_of(self, c):
        shape = tuple(c["shape"])
        v = core.make_values(shape, c["vkind"], 0)
        if c["values_as"] == "list" and not (0 in shape and len(shape) >= 2):
            return v.tolist()      # (a nested list cannot express a shape such as (0, 3))
        if c["values_as"] == "scalar":
            return v.reshape(()).item()
        return v

    def other_for(self, x, d):
        """an array sharing dimension d with labels overlapping those of x"""
        ax = x.axes[d]
        vals = ax.values
        if vals.dtype.kind in "if":
            labs = np.array(sorted(set([0, 2] + [int(v) for v in np.asarray(vals, dtype=float)[:1]])), dtype=vals.dtype)
        elif vals.dtype.kind == "O":
            items = []
            for v in ["a", "c"] + list(vals[:1]):
                if not any(type(v) is type(w) and v == w for w in items):
                    items.append(v)
            labs = _obj_array(items)
        else:
            labs = np.array(sorted(set([0, 2] + [int(v) for v in np.asarray(vals, dtype=float)[:1]])), dtype=float)
        return DimArray(np.arange(len(labs)) * 100.0, axes=[Axis(labs, ax.name)])

    # -- one step of a history; returns "ok" / "skip" (an exception is caught by the caller)
    def step(self, st, S):
        env, dss = S.env, S.dss
        t = st[0]
        if t.startswith("ds_"):
            return self.step_ds(st, S)
        a = env[st[1] % len(env)]
        nd = a.ndim

        def push(r):
            if isinstance(r, DimArray) and len(env) < MAX_ENV and r.values.size <= MAX_CELLS and r.ndim <= 4:
                env.append(r)
                return "ok"
            return "ok" if not isinstance(r, DimArray) else "skip"

        def frozen(ax):
            # TODO(defect): see SKIP_GROUPED_MEMBER_MUTATION
            return isinstance(ax, MultiAxis) or (SKIP_GROUPED_MEMBER_MUTATION and S.is_live_member(ax))

        def groupable(idx):
            # TODO(defect): see SKIP_FLATTEN_EMPTY_OR_NESTED
            return not SKIP_FLATTEN_EMPTY_OR_NESTED or all(not isinstance(a.axes[i], MultiAxis) and a.shape[i] > 0 for i in idx)

        if t == "query":
            if nd == 0:
                return "skip"
            q, d = st[2], st[3] % nd
            if q == "is_monotonic":
                a.axes[d].is_monotonic()
            elif q == "sort_axis":
                a.sort_axis(axis=d)
            elif q == "repr":
                repr(a)
            elif q == "labels":
                [np.asarray(l).tolist() for l in a.labels]
            elif q == "sizes":
                [int(ax.size) for ax in a.axes]
            elif q == "flat_labels":
                if nd >= 2 and groupable(range(nd)):
                    a.flatten().axes[0].values
            elif q == "sum":
                a.sum(axis=d)
            elif q == "sum_name":
                a.sum(axis=a.dims[d])           # a dimension resolved BY NAME (any per-object name bookkeeping is exercised)
            elif q == "swapaxes_name":
                if nd >= 2:
                    a.swapaxes(a.dims[0], a.dims[-1])
            else:
                o = self.other_for(a, d)
                if q == "add_other":
                    a + o
                elif q == "radd_other":
                    o + a
                elif q == "align_other":
                    da.align([a, o], join="outer")
                elif q == "align_inner":
                    da.align((a, o), join="inner")
                elif q == "reindex_other":
                    a.reindex_axis(o.axes[0].values, axis=d)
                elif q == "union":
                    a.axes[d].union(o.axes[0])
            return "ok"
        if t in ("transpose", "copy", "unflatten", "squeeze", "ctor_from"):
            if t == "transpose":
                return push(a.transpose() if nd <= 2 else a.transpose(*a.dims[::-1]))
            if t == "copy":
                return push(a.copy())
            if t == "unflatten":
                return push(a.unflatten())
            if t == "squeeze":
                return push(a.squeeze())
            how = st[2]
            if how == "DimArray":
                return push(DimArray(a))
            if how == "values+Axes":
                return push(DimArray(a.values, a.axes))
            return push(getattr(da, how)(a))
        if t == "set_values":
            how = st[2]
            if how == "nan":
                a.values = np.nan
            elif how == "float":
                a.values = 2.5
            elif how == "int":
                a.values = 7
            else:
                a.values = np.arange(a.shape[-1]) + 0.5
            return "ok"
        if nd == 0:
            return "skip"
        # ---- steps combining two live arrays / addressing dimensions by position
        if t in ("stack", "broadcast", "reindex_like"):
            b = env[st[2] % len(env)]
            if t == "stack":
                return push(da.stack([a, b], axis=S.fresh("s"), keys=["p", "q"] if st[3] == "keys" else None, align=True))
            if t == "broadcast":
                return push(a.broadcast(b))
            return push(a.reindex_like(b))
        if t == "flatten":
            if st[2] == "all" or nd < 2:
                if not groupable(range(nd)):
                    return "skip"
                return push(a.flatten())
            i, j = st[3] % nd, st[4] % nd
            if i == j:
                j = (i + 1) % nd
            if not groupable([i, j]):
                return "skip"
            return push(a.flatten(a.dims[i], a.dims[j]))
        if t == "reshape":
            if nd < 2:
                return "skip"
            i, j = st[2] % nd, st[3] % nd
            if i == j:
                j = (i + 1) % nd
            if any("," in n for n in a.dims) or not groupable([i, j]):
                return "skip"
            rest = [n for n in a.dims if n not in (a.dims[i], a.dims[j])]
            return push(a.reshape(*(["%s,%s" % (a.dims[i], a.dims[j])] + rest)))
        if t == "newaxis":
            return push(a.newaxis(S.fresh("n"), values=[4, 5] if st[3] == 2 else None, pos=st[2] % (nd + 1)))
        if t == "swapaxes":
            return push(a.swapaxes(st[2] % nd, st[3] % nd))
        if t == "concat":
            b = env[st[2] % len(env)]
            return push(da.concatenate([a, b], axis=a.dims[st[3] % nd], align=bool(st[4])))
        if t == "align":
            b = env[st[2] % len(env)]
            r = da.align([a, b], join=st[3], sort=bool(st[4]))
            for x in r:
                if x is not a and x is not b:
                    push(x)
            return "ok"
        if t == "arith":
            b = env[st[2] % len(env)]
            op = st[3]
            if op == "add_env":
                return push(a + b)
            if op == "mul_env":
                return push(a * b)
            if op == "gt_env":
                return push(a > b)
            if op == "mul2":
                return push(a * 2)
            if op == "neg":
                return push(-a)
            return push(a + self.other_for(a, st[4] % nd))
        d = st[2] % nd
        ax = a.axes[d]
        n = int(a.shape[d])
        if t == "slice":
            key = tuple(slice(st[3], st[4]) if i == d else slice(None) for i in range(nd))
            return push(a.ix[key])
        if t == "take":
            if n == 0:
                return "skip"
            return push(a.take([p % n for p in st[3]], axis=d, indexing="position"))
        if t == "sort_key":
            ctr = st[3]
            if _is_num(ax.values):
                return push(a.sort_axis(axis=d, key=lambda x: abs(float(x) - ctr)))
            return push(a.sort_axis(axis=d, key=lambda x: (str(x)[::-1], str(x))))
        if t == "reduce":
            return push(getattr(a, st[3])(axis=d))
        if t == "cum":
            return push(getattr(a, st[3])(axis=d))
        if t == "reindex":
            how = st[3]
            if how == "other":
                new = self.other_for(a, d).axes[0].values
            elif how == "rev":
                new = np.array(ax.values[::-1], copy=True)
            else:
                new = np.array(ax.values[::2], copy=True)
            return push(a.reindex_axis(new, axis=d))
        if t == "dropna":
            if st[3] == "fillna":
                return push(a.fillna(0))
            return push(a.dropna(axis=d))
        if t == "index":
            if n == 0:
                return "skip"
            i = st[3] % n
            if st[4] == "pos":
                return push(a.ix[tuple(i if e == d else slice(None) for e in range(nd))])
            if isinstance(ax, MultiAxis):
                return "skip"
            lab = ax.values[i]
            if st[4] == "label":
                return push(a.take(lab, axis=d))
            return push(a[tuple(lab if e == d else slice(None) for e in range(nd))])
        if t == "setitem":
            via, v = st[4], (np.nan if st[5] == "nan" else st[5])
            if via == "fill":
                a.fill(v)
                return "ok"
            if via == "bool":
                a[a > 3] = v
                return "ok"
            if n == 0 or isinstance(ax, MultiAxis):
                return "skip"
            i = st[3] % n
            if via == "ix":
                a.ix[tuple(i if e == d else slice(None) for e in range(nd))] = v
            elif via == "put":
                a.put(ax.values[i], v, axis=d)
            else:
                a[tuple(ax.values[i] if e == d else slice(None) for e in range(nd))] = v
            return "ok"
        # ---- mutation of the labels / name of one axis
        if t == "relabel":
            if n == 0 or frozen(ax):
                return "skip"
            v = st[4]
            if not _is_num(ax.values):
                v = "L%s" % v      # (a str axis stays a str axis)
            a.axes[d][st[3] % n] = v
            return "ok"
        if t == "sort_inplace":
            if frozen(ax):
                return "skip"
            if SKIP_SORT_INPLACE_DUPLICATES and len(set(ax.values.tolist())) != n:
                return "skip"       # TODO(defect): see SKIP_SORT_INPLACE_DUPLICATES
            a.axes[d].sort()
            return "ok"
        if t == "set_labels":
            if frozen(ax):
                return "skip"
            via, how = st[3], st[4]
            cur = np.array(ax.values, copy=True)
            num = _is_num(cur)
            if how == "rev" or (how == "neg" and not num):
                new = cur[::-1].copy()
            elif how == "rot" or (how == "shift" and not num):
                new = np.roll(cur, 1)
            elif how == "neg":
                new = -cur
            elif how == "shift":
                new = cur + 100
            elif how == "sorted":
                new = np.sort(cur)          # (mixed labels: TypeError, the step is dropped)
            elif how == "swap":
                new = cur.copy()
                if n >= 2:
                    new[0], new[1] = cur[1], cur[0]
            elif how == "longer":
                # one label too many: every setter must refuse it (the array stays well-formed either way)
                new = np.concatenate([cur, cur[:1]]) if n else (np.array([1]) if num else _obj_array(["a"]))
            else:
                new = cur
            if via == "values_setter":
                a.axes[d].values = new
            elif via == "set_axis_list":
                a.set_axis(new, axis=d)
            elif via == "set_axis_copy":
                return push(a.set_axis(new, axis=d, inplace=False))
            elif via == "set_axis_dict":
                a.set_axis(dict(zip(cur.tolist(), new.tolist())), axis=a.dims[d])
            elif via == "set_axis_fn":
                if how == "neg" and num:
                    a.set_axis(lambda x: -x, axis=d)
                elif how == "shift" and num:
                    a.set_axis(lambda x: x + 100, axis=d)
                else:
                    m = dict(zip(cur.tolist(), new.tolist()))
                    a.set_axis(lambda x: m[x], axis=d)
            elif via == "labels_setter":
                if any(isinstance(x, MultiAxis) or frozen(x) for x in a.axes):
                    return "skip"
                a.labels = tuple(new if e == d else np.array(a.axes[e].values, copy=True) for e in range(nd))
            elif via == "axes_setitem":
                a.axes[d] = Axis(new, ax.name)
            else:
                a.axes[d].set(values=new)
            return "ok"
        if t == "rename":
            if frozen(ax):
                return "skip"
            via = st[3]
            new = S.fresh("r")       # a name no live array uses
            if via == "name_setter":
                a.axes[d].name = new
            elif via == "set_axis_name":
                a.set_axis(name=new, axis=d)
            elif via == "set_axis_copy":
                return push(a.set_axis(name=new, axis=a.dims[d], inplace=False))
            elif via == "dims_setter":
                if any(frozen(x) for x in a.axes):
                    return "skip"
                a.dims = tuple(new if e == d else a.dims[e] for e in range(nd))
            elif via == "dims_dict":
                a.dims = {a.dims[d]: new}
            elif via in ("dims_swap", "dims_swap_dict", "dims_dup", "dims_dup_dict", "dims_dup_partial"):
                # the new names reuse current ones: a rotation of the names is a plain renaming (each axis gets the name
                # given for it), a repeated name must be refused (the array would be ill-formed: checked after the history)
                if nd < 2 or any(frozen(x) for x in a.axes):
                    return "skip"
                # (an Axis object shared with another live array - views, transposes, Dataset variables - carries its new
                # name over there, where it may collide: `Axis.name` cannot know; reported separately, not generated)
                holders = [h for h in S.arrays() + S.dss if h is not a]
                if any(x is y for h in holders for y in h.axes for x in a.axes):
                    return "skip"
                cur = a.dims
                want = cur[1:] + cur[:1] if "swap" in via else tuple(cur[(d + 1) % nd] if e == d else cur[e] for e in range(nd))
                raised = None
                try:
                    if via == "dims_dup_partial":
                        # a PARTIAL mapping onto the name another dimension already holds (that dimension is not renamed)
                        a.dims = {cur[d]: cur[(d + 1) % nd]}
                    else:
                        a.dims = dict(zip(cur, want)) if via.endswith("dict") else want
                except Exception as e:  # noqa
                    raised = e
                expect = (cur,) if raised is not None else (want,) if "swap" in via else ()
                if a.dims not in expect:
                    S.problems.append({"var": st[1] % len(env), "why": "dims_setter", "dims": list(a.dims), "asked": list(want),
                                       "raised": raised is not None})
                if raised is not None:
                    raise raised
            elif via == "axis_set_name":
                a.axes[d].set(name=new)
            else:
                a.axes[d] = Axis(np.array(ax.values, copy=True), new)
            return "ok"
        raise ValueError("unknown step %r" % (t,))

    def step_ds(self, st, S):
        env, dss = S.env, S.dss
        t = st[0]
        if t == "ds_new":
            if len(dss) >= MAX_DS:
                return "skip"
            ds = Dataset()
            ds[S.fresh("v")] = env[st[1] % len(env)]
            dss.append(ds)
            return "ok"
        if not dss:
            # (a Dataset step before any `ds_new`: the Dataset is made on the spot from one live array)
            ds0 = Dataset()
            ds0[S.fresh("v")] = env[st[1] % len(env)]
            dss.append(ds0)
        ds = dss[st[1] % len(dss)]
        if t == "ds_put":
            ds[S.fresh("v")] = env[st[2] % len(env)]
            return "ok"
        keys = list(ds.keys())
        if t == "ds_get":
            if not keys or len(env) >= MAX_ENV:
                return "skip"
            env.append(ds[keys[st[2] % len(keys)]])
            return "ok"
        if len(ds.axes) == 0:
            return "skip"
        d = st[3] % len(ds.axes)
        ax = ds.axes[d]
        n = int(ax.size)
        which = st[2]
        if t == "ds_op":
            if which == "copy":
                r = ds.copy()
            elif which == "to_array":
                r = ds.to_array()
                if isinstance(r, DimArray) and len(env) < MAX_ENV and r.values.size <= MAX_CELLS:
                    env.append(r)
                return "ok"
            elif which == "mean":
                r = ds.mean(axis=ax.name)
            elif which == "sort_axis":
                r = ds.sort_axis(axis=ax.name)
            elif which == "take_pos":
                if n == 0:
                    return "skip"
                r = ds.take(indices=[st[4] % n], axis=ax.name, indexing="position")
            else:
                r = ds.reindex_axis(np.array(ax.values[::-1], copy=True), axis=ax.name)
            if isinstance(r, Dataset) and len(dss) < MAX_DS:
                dss.append(r)
                return "ok"
            return "skip"
        if t == "ds_mut":
            frozen = isinstance(ax, MultiAxis) or (SKIP_GROUPED_MEMBER_MUTATION and S.is_live_member(ax))
            if which == "del":
                if len(keys) < 2:
                    return "skip"
                del ds[keys[st[4] % len(keys)]]
                return "ok"
            if frozen:
                return "skip"
            if which == "set_axis_vals":
                ds.set_axis(np.array(ax.values[::-1], copy=True), axis=ax.name)
            elif which in ("set_axis_longer", "axes_setitem_longer"):
                # one label too many: must be refused (every variable stays well-formed either way)
                longer = np.concatenate([ax.values, ax.values[:1]]) if n else np.array([1])
                if which == "set_axis_longer":
                    ds.set_axis(longer, axis=ax.name)
                else:
                    ds.axes[ax.name] = Axis(longer, ax.name)
            elif which == "rename_axes":
                ds.rename_axes({ax.name: S.fresh("r")})
            elif which == "set_axis_name":
                ds.set_axis(name=S.fresh("r"), axis=ax.name)
            else:
                if n == 0:
                    return "skip"
                ds.axes[ax.name][st[4] % n] = 33 if _is_num(ax.values) else "L33"
            return "ok"
        raise ValueError("unknown step %r" % (t,))

    def run_probe(self, name, x, d, o):
        ax = x.axes[d] if d is not None else None
        if name == "add":
            return x + o
        if name == "radd":
            return o + x
        if name == "align":
            return da.align([x, o], join="outer")
        if name == "align_inner":
            return da.align((x, o), join="inner")
        if name == "align_sort":
            return da.align([x, o], join="outer", sort=True)
        if name == "reindex":
            return x.reindex_axis(o.axes[0].values, axis=d)
        if name == "reindex_like":
            return o.reindex_like(x)
        if name == "sort_axis":
            return x.sort_axis(axis=d)
        if name == "slice":
            return x.take(slice(ax.values.min(), None), axis=d) if ax.size else x
        if name == "loc_first":
            return x.take([ax.values[0]], axis=d) if ax.size else x
        if name == "take_pos":
            return x.take([0], axis=d, indexing="position") if ax.size else x
        if name == "is_monotonic":
            return bool(ax.is_monotonic())
        if name == "sum":
            return x.sum(axis=d)
        if name == "sum_name":
            return x.sum(axis=x.dims[d])
        if name == "cumsum":
            return x.cumsum(axis=d)
        if name == "concat":
            return da.concatenate([x, x], axis=x.dims[d])
        if name == "union":
            return ax.union(o.axes[0]).values
        if name == "intersection":
            return ax.intersection(o.axes[0]).values
        # whole-array probes
        if name == "repr":
            return repr(x)
        if name == "flatten":
            return x.flatten() if x.ndim >= 2 else x
        if name == "unflatten":
            return x.unflatten()
        if name == "transpose":
            return x.T
        if name == "transpose_names":
            return x.transpose(*reversed(x.dims)) if x.ndim >= 2 else x
        if name == "stack":
            return da.stack([x, x], axis="s_", keys=["p", "q"])
        if name == "dataset":
            return Dataset({"v": x})
        if name == "neg":
            return -x
        if name == "copy":
            return x.copy()
        if name == "labels":
            return [np.asarray(l) for l in x.labels]
        if name == "sizes":
            return [int(a.size) for a in x.axes]
        if name == "eq":
            return x == x
        raise ValueError(name)

    def run_hist(self, c):
        env = [core.build_array(c["array"], 0)]
        for i, ad in enumerate(c.get("more", [])):
            env.append(core.build_array(ad, i + 1))
        S = HistState(env)
        log = []
        old_style = "probes" not in c        # (replays recorded before the history steps were extended)
        for st in c["steps"]:
            n0 = len(env)
            try:
                with warnings.catch_warnings():
                    warnings.simplefilter("ignore")
                    log.append(self.step(st, S))
            except Exception as e:  # noqa
                log.append("err:" + core.exc_class(e))
                if old_style and st[0] in ("slice", "take", "transpose", "copy", "sort_key") and len(env) == n0:
                    env.append(env[st[1] % len(env)])
        # every live array - and every variable of every live Dataset - is still well-formed: one 1-D axis per
        # dimension, of the length of that dimension, under distinct non-empty names
        illformed = []
        live = S.arrays()

        def _n(ax):
            try:
                return int(np.size(ax.values))
            except Exception as e:  # noqa
                return type(e).__name__
        for k, a in enumerate(live):
            if not isinstance(a, DimArray):
                illformed.append({"var": k, "not_a_dimarray": type(a).__name__})
                continue
            why = wf_problem(a)
            if why:
                illformed.append({"var": k, "why": why, "dims": [str(getattr(ax, "name", None)) for ax in a.axes],
                                  "axes": [_n(ax) for ax in a.axes], "values_shape": list(np.shape(a.values))})
        illformed = S.problems + illformed
        if illformed:
            return {"ok": [], "illformed": illformed, "steps": log}
        # probes: every live array against a freshly constructed equal array
        P = c.get("probes", OLD_PROBES)
        if len(live) > MAX_PROBED and not old_style:
            live = live[:1] + live[-(MAX_PROBED - 1):]
        out = []

        def run(name, x, d, o):
            with warnings.catch_warnings():
                warnings.simplefilter("ignore")
                return conv(self.run_probe(name, x, d, o))
        for a in live:
            f = fresh_of(a)
            res = []
            for d in range(a.ndim):
                try:
                    o = self.other_for(f, d)
                except Exception:  # noqa
                    continue
                for name in P["dim"]:
                    res.append({"probe": name, "d": d, "hist": core.guarded(lambda: run(name, a, d, o)), "fresh": core.guarded(lambda: run(name, f, d, o))})
            for name in P["arr"]:
                res.append({"probe": name, "d": None, "hist": core.guarded(lambda: run(name, a, None, None)), "fresh": core.guarded(lambda: run(name, f, None, None))})
            out.append(res)
        return {"ok": out, "steps": log, "n_live": len(live), "n_ds": len(S.dss),
                "kinds": sorted({core.ckind(ax.values.dtype.kind) if not isinstance(ax, MultiAxis) else "grouped" for a in live for ax in a.axes}),
                "max_rank": max([a.ndim for a in live] + [0])}

    # -- forms outside the mirror
    def run_ctor2(self, c):
        outs = []
        for form in c["forms"]:
            vals = core.make_values(tuple(c["shape"]), c["vkind"], 0)
            outs.append(core.guarded(lambda: core.obs_array(build_variant2(form, c["axes"], vals))))
        return {"ok": outs}

    def run_helper2(self, c):
        axes = c["axes"]
        dims = [a["name"] for a in axes]
        labs = [py_labels(a) for a in axes]
        shape = tuple(len(l) for l in labs)
        pairs = list(zip(dims, labs))
        h, form = c["helper"], c["form"]
        dt = {"int": int, "bool": bool, "float": float}[c["dtype"]]

        def run():
            if form in ("like", "like_dtype"):
                src = DimArray(core.make_values(shape, c["vkind"], 0), axes=pairs)
                fn = getattr(da, h + "_like")
                r = fn(src, dtype=dt) if form == "like_dtype" else fn(src)
            else:
                fn = getattr(da, h)
                if form == "shape+dims":
                    r = fn(shape=shape, dims=dims)
                elif form == "shape":
                    r = fn(shape=shape)
                elif form == "pos_pairs":
                    r = fn(pairs)
                elif form == "dtype":
                    r = fn(axes=pairs, dtype=dt)
                elif form == "axes+shape":
                    r = fn(axes=labs, dims=dims, shape=shape)
                else:
                    bad = list(shape)
                    bad[0] += 1
                    r = fn(axes=labs, dims=dims, shape=tuple(bad))
            o = core.obs_array(r)
            want = {"zeros": 0, "ones": 1}.get(h)
            if want is not None:
                o["all_const"] = bool(np.all(r.values == want))
            elif h == "nans":
                o["all_const"] = bool(np.all(np.isnan(r.values)))
            else:
                o["all_const"] = True
            o["values"] = []
            return o
        return core.guarded(run)

    def run_axset(self, c):
        a = core.build_array({"axes": c["axes"], "vkind": c["vkind"]}, 0)
        before = core.obs_array(a)
        dims = [x["name"] for x in c["new"]]
        labs = [py_labels(x) for x in c["new"]]
        form = c["form"]

        def run():
            if form == "lists":
                a.axes = labs
            elif form == "pairs":
                a.axes = list(zip(dims, labs))
            elif form == "objs":
                a.axes = [Axis(l, d) for l, d in zip(labs, dims)]
            else:
                a.axes = Axes([Axis(l, d) for l, d in zip(labs, dims)])
            return True
        res = core.guarded(run)
        why = wf_problem(a)
        return {"set": res, "wf": why, "before": before, "after": core.guarded(lambda: core.obs_array(a))}

    def run_grouped(self, c):
        a = core.build_array({"axes": c["axes"], "vkind": c["vkind"], "nan_at": c.get("nan_at", ())}, 0)
        names = tuple(c["axes"][k]["name"] for k in c["group"])
        g = a.flatten(names, insert=0)
        gax = g.axes[0]
        fresh = DimArray(np.array(g.values, copy=True), axes=[Axis(_obj_array(list(gax.values)), gax.name)] +
                         [Axis(np.array(x.values, copy=True), x.name) for x in g.axes[1:]])
        n = int(gax.size)
        mask = np.array([k % 2 == 0 for k in range(n)])

        def probe(x, name):
            if name == "ix_slice":
                return x.ix[1:3]
            if name == "ix_list":
                return x.ix[[0, n - 1]]
            if name == "compress_axis":
                return x.compress_axis(mask, axis=0)
            if name == "getitem_mask":
                return x[(mask,) + (slice(None),) * (x.ndim - 1)]
            if name == "dropna":
                return x.dropna(axis=0)
            if name == "is_monotonic":
                return bool(x.axes[0].is_monotonic())
            if name == "axis_slice":
                return np.asarray(x.axes[0][1:].values)
            if name == "diff":
                return x.diff(axis=0)
            raise ValueError(name)

        def run(x):
            with warnings.catch_warnings():
                warnings.simplefilter("ignore")
                if c["probe"] == "diff_tuple":
                    # the tuple form of the axis argument flattens (insert=0) and differences along the grouped axis
                    return conv(a.diff(axis=names) if x is g else fresh.diff(axis=0))
                return conv(probe(x, c["probe"]))
        return {"hist": core.guarded(lambda: run(g)), "fresh": core.guarded(lambda: run(fresh)), "wf": wf_problem(g)}

    def judge_grouped(self, c, io):
        bad = []
        if io["wf"]:
            bad.append("illformed_after_flatten:" + io["wf"])
        h, f = io["hist"], io["fresh"]
        if ("err" in h) != ("err" in f):
            bad.append("grouped_outcome:" + c["probe"])
        elif "ok" in h and h["ok"] != f["ok"]:
            bad.append("grouped_differs:" + c["probe"])
        if not bad:
            return None
        return {"kind": "P", "differs": sorted(set(bad)), "msg": h.get("msg") or f.get("msg"), "impl": io}

    def impl(self, c):
        monitor_on()
        try:
            if c["op"] == "hist":
                return self.run_hist(c)
            if c["op"] in c05_cache.OPS:
                return c05_cache.run_cache(c)
            if c["op"] == "grouped":
                return self.run_grouped(c)
            if c["op"] == "ctor2":
                return self.run_ctor2(c)
            if c["op"] == "helper2":
                return self.run_helper2(c)
            if c["op"] == "axset":
                return self.run_axset(c)
            if c["op"] == "helper":
                axes = c["axes"]
                dims = [a["name"] for a in axes]
                labs = [py_labels(a) for a in axes]
                fn = getattr(da, c["helper"])
                def run():
                    if c["form"] == "lists+dims":
                        r = fn(axes=labs, dims=dims)
                    elif c["form"] == "pairs":
                        r = fn(axes=list(zip(dims, labs)))
                    else:
                        r = fn(axes=[Axis(l, d) for l, d in zip(labs, dims)])
                    o = core.obs_array(r)
                    want = {"zeros": 0.0, "ones": 1.0}.get(c["helper"])
                    if want is not None:
                        o["all_const"] = bool(np.all(r.values == want))
                    elif c["helper"] == "nans":
                        o["all_const"] = bool(np.all(np.isnan(r.values)))
                    else:
                        o["all_const"] = True
                    o["values"] = []
                    return o
                return core.guarded(run)
            outs = []
            for form in c["forms"]:
                vals = self.values_of(c)
                outs.append(core.guarded(lambda: core.obs_array(build_variant(form, c["axes"], vals))))
            return {"ok": outs}
        finally:
            monitor_off()

    def request(self, c):
        if c["op"] in c05_cache.OPS:
            return c05_cache.request_cache(c)
        if c["op"] in ("hist", "ctor2", "helper2", "axset", "grouped"):
            return dict(DUMMY)
        if c["op"] == "helper":
            shape = [len(a["labels"]) for a in c["axes"]]
            return {"op": "construct_group", "shape": shape, "vkind": "f", "variants": [lean_variant(c["form"], c["axes"])]}
        return {"op": "construct_group", "shape": c["shape"], "vkind": c["vkind"],
                "variants": [lean_variant(f, c["axes"]) for f in c["forms"]]}

    # ------------------------------------------------------------ judges of the oracle-only strata
    def judge_ctor2(self, c, io):
        bad, detail = [], {}
        vals = core.make_values(tuple(c["shape"]), c["vkind"], 0)
        for form, o in zip(c["forms"], io["ok"]):
            if c.get("_malformed"):
                # data whose shape disagrees with the axes, or duplicate dimension names, are rejected
                if "ok" in o:
                    bad.append("accepted_malformed")
                    detail.setdefault(form, {"dims": o["ok"]["dims"], "shape": o["ok"]["shape"]})
                continue
            if "err" in o:
                bad.append("rejected_wellformed")
                detail.setdefault(form, {"err": o["err"], "msg": o.get("msg")})
                continue
            d = diff_expected(o["ok"], expected2(form, c["axes"], vals))
            if d:
                bad += ["forms_agree." + x for x in d]
                detail.setdefault(form, {"differs": d, "dims": o["ok"]["dims"], "shape": o["ok"]["shape"],
                                         "labels": [a["labels"] for a in o["ok"]["axes"]], "values": o["ok"]["values"][:8]})
        if not bad:
            return None
        return {"kind": "P", "differs": sorted(set(bad)), "detail": detail}

    def judge_helper2(self, c, io):
        bad = []
        form = c["form"]
        if form == "axes+shape_bad":
            # a requested shape that disagrees with the axes is rejected
            if "ok" in io:
                bad.append("accepted_malformed")
        elif "err" in io:
            bad.append("rejected_wellformed")
        else:
            o = io["ok"]
            axes = c["axes"]
            shape = [len(a["labels"]) for a in axes]
            exp = {"dims": [a["name"] for a in axes], "shape": shape, "labels": [a["labels"] for a in axes]}
            if form in ("shape+dims", "shape"):
                exp["labels"] = [[["n", i, 1] for i in range(s)] for s in shape]        # np.arange(n) along every dimension
            if form == "shape":
                exp["dims"] = ["x%d" % i for i in range(len(shape))]
            bad += diff_expected(o, exp)
            if not o["all_const"]:
                bad.append("values")
            # dtype: the requested one; *_like: the dtype of the template (nans: float)
            if c["helper"] == "nans":
                want = "f"
            elif form in ("dtype", "like_dtype"):
                want = {"int": "i", "bool": "b", "float": "f"}[c["dtype"]]
            elif form == "like":
                want = c["vkind"]
            else:
                want = "f"
            if o["vkind"] != want:
                bad.append("values.dtype")
        if not bad:
            return None
        return {"kind": "P", "differs": sorted(set(bad)), "impl": io}

    def judge_axset(self, c, io):
        bad = []
        if io["wf"]:
            bad.append("illformed_after_axes_setter:" + io["wf"])
        after = io["after"]
        if "err" in after:
            bad.append("unobservable_after_axes_setter")
        elif c.get("_malformed"):
            if "ok" in io["set"]:
                bad.append("accepted_malformed")
        else:
            if "err" in io["set"]:
                bad.append("rejected_wellformed")
            else:
                new = c["new"]
                exp = {"dims": [a["name"] for a in new] if c["form"] != "lists" else ["x%d" % i for i in range(len(new))],
                       "shape": io["before"]["shape"], "labels": [a["labels"] for a in new], "values": io["before"]["values"]}
                bad += diff_expected(after["ok"], exp)
        if not bad:
            return None
        return {"kind": "P", "differs": sorted(set(bad)), "impl": {k: io[k] for k in ("set", "wf")}}

    def judge(self, c, io, ans):
        bad = []
        detail = {}
        if c["op"] in c05_cache.OPS:
            return c05_cache.judge_cache(c, io, ans)
        if c["op"] == "ctor2":
            return self.judge_ctor2(c, io)
        if c["op"] == "helper2":
            return self.judge_helper2(c, io)
        if c["op"] == "axset":
            return self.judge_axset(c, io)
        if c["op"] == "grouped":
            return self.judge_grouped(c, io)
        if c["op"] == "hist":
            if "err" in io:
                return {"kind": "P", "differs": ["outcome:" + io["err"]], "msg": io.get("msg")}
            if io.get("illformed"):
                return {"kind": "P", "differs": ["illformed_after_history"], "detail": {"first": io["illformed"][0], "steps": io.get("steps")}}
            for v, res in enumerate(io["ok"]):
                for r in res:
                    h, f = r["hist"], r["fresh"]
                    same = (("err" in h) == ("err" in f)) and (("err" in h and h["err"] == f["err"]) or ("ok" in h and h["ok"] == f["ok"]))
                    if not same:
                        bad.append("history_dependent:%s" % r["probe"])
                        detail.setdefault("first", {"var": v, "probe": r["probe"], "d": r["d"], "hist": h, "fresh": f, "steps": io.get("steps")})
            if not bad:
                return None
            return {"kind": "P", "differs": sorted(set(bad)), "detail": detail}
        if c["op"] == "helper":
            lean = ans["lib"][0]
            if "err" in io or "err" in lean:
                if ("err" in io) != ("err" in lean):
                    bad.append("outcome")
            else:
                for k in ("dims", "shape"):
                    if io["ok"][k] != lean["ok"][k]:
                        bad.append(k)
                if [a["labels"] for a in io["ok"]["axes"]] != [a["labels"] for a in lean["ok"]["axes"]]:
                    bad.append("axes.labels")
                if not io["ok"]["all_const"]:
                    bad.append("values")
            mm = self.classify(bad)
            if mm:
                mm["impl"] = io
            return mm
        vals = core.make_values(tuple(c["shape"]), c["vkind"], 0)
        env = core.CellEnv([vals])
        oks = []
        for form, o, l in zip(c["forms"], io["ok"], ans["lib"]):
            if "ok" in l:
                lo = core.lean_obs_to_canon(l["ok"], env)
                lo["scalar"] = False
                l = {"ok": lo}
            d = core.diff_obs(o, l, keys=("dims", "shape", "axes", "values"))
            # a raised exception: the property fixes that the input is rejected, not the class
            d = [x for x in d if x != "errclass"]
            # (the class of the exception raised for a rejected input is not part of the property
            #  and not compared: a dict collapses duplicate names before dimarray sees them, etc.)
            if d:
                bad += d
                detail[form] = {"impl": o if "err" in o else {k: o["ok"][k] for k in ("dims", "shape")}, "msg": o.get("msg"),
                                "lean": l if "err" in l else {k: l["ok"][k] for k in ("dims", "shape")}}
            if "ok" in o:
                oks.append((form, o["ok"]))
        # all documented forms build equal arrays
        for (f1, o1), (f2, o2) in zip(oks, oks[1:]):
            for k in ("dims", "shape", "values"):
                if o1[k] != o2[k]:
                    bad.append("forms_agree." + k)
            if [(a["name"], a["labels"]) for a in o1["axes"]] != [(a["name"], a["labels"]) for a in o2["axes"]]:
                bad.append("forms_agree.axes")
        if c.get("_malformed") and oks:
            bad.append("accepted_malformed")
        if not c.get("_malformed") and not oks:
            bad.append("rejected_wellformed")
        if not bad:
            return None
        p = [b for b in bad if not b.startswith("M.") and b not in ("axes.kind", "vkind")]
        return {"kind": "P" if p else "M", "differs": sorted(set(bad)), "detail": detail}

    def extra_evidence(self):
        return {"monitor_arrays_constructed": MON["constructed"], "monitor_illformed": MON["illformed"]}

    def known(self, c, io, ans, mm, open_findings):
        if any(f["id"] == "K09" for f in open_findings) and c05_cache.known_grouped(c, mm):
            return "K09"
        return None

    def nontrivial(self, c):
        if c["op"] in c05_cache.OPS:
            return len(c["ops"]) >= 3
        if c["op"] == "hist":
            return len(c["steps"]) >= 1
        return len(c["axes"]) >= 1

    def features(self, c, io):
        if c["op"] in c05_cache.OPS:
            return c05_cache.features_cache(c, io)
        if c["op"] == "hist":
            f = {"op": "hist", "rank": len(c["array"]["axes"]), "nsteps": len(c["steps"]), "second_array": bool(c.get("more")),
                 "theme": c.get("theme")}
            log = io.get("steps") or [None] * len(c["steps"])
            for st, s in zip(c["steps"], log):
                name = "step:" + st[0]
                if st[0] == "query":
                    name += ":" + st[2]
                elif st[0] in ("set_labels", "rename"):
                    name += ":" + st[3]
                elif st[0] == "setitem":
                    name += ":" + st[4]
                elif st[0] in ("ds_op", "ds_mut", "ctor_from"):
                    name += ":" + st[2]
                f[name] = 1
                if s is not None:
                    f["ran:" + st[0] + ":" + s.split(":")[0]] = 1
            for k in ("n_live", "n_ds", "max_rank"):
                if k in io:
                    f[k] = io[k]
            for k in io.get("kinds", []):
                f["label_kind:" + k] = 1
            P = c.get("probes", OLD_PROBES)
            for p in P["dim"] + P["arr"]:
                f["probe:" + p] = 1
            return f
        f = {"op": c["op"], "rank": len(c["axes"]), "malformed": c.get("_malformed")}
        if c["op"] == "ctor":
            f["values_as"] = c.get("values_as")
            f["n_rejected"] = sum(1 for o in io["ok"] if "err" in o)
        elif c["op"] == "ctor2":
            for form, o in zip(c["forms"], io["ok"]):
                f["form:" + form + (":rejected" if "err" in o else "")] = 1
        elif c["op"] == "helper2":
            f["form"] = c["helper"] + ":" + c["form"]
            f["outcome"] = "err" if "err" in io else "ok"
        elif c["op"] == "axset":
            f["form"] = c["form"]
            f["outcome"] = "err" if "err" in io["set"] else "ok"
        elif c["op"] == "grouped":
            f["probe"] = c["probe"]
            f["outcome"] = "err" if "err" in io["hist"] else "ok"
        return f

    def size(self, c):
        if c["op"] in ("hist", "cache", "gcache"):
            return len(json.dumps(c))
        return sum(len(a["labels"]) for a in c["axes"]) + 10 * len(c["axes"])

    def snippet(self, c):
        return ("import sys; sys.path.insert(0, '/verif/harness'); import json, core; from props.c05 import PROP; "
                "case = json.load(open(REPLAY))['case']; print(PROP.impl(case))")


PROP = C05()

"""C05 - every produced array is well-formed and history-independent.

(a) constructor forms: all documented ways of giving the same axes build equal arrays; shape
    mismatches and duplicate names are rejected;
(b) histories: an array that went through a sequence of operations answers further operations like a
    freshly built array with the same values / labels / dims (see `hist` cases);
(c) a monitor wraps DimArray.__init__ during the run and checks well-formedness of every array the
    library constructs.
"""
import copy, itertools, json
from collections import OrderedDict
import numpy as np
import core, gen
from core import da, Axis, DimArray
from .base import Prop

# ---------------------------------------------------------------- monitor (c)
MON = {"constructed": 0, "illformed": []}
_orig_init = DimArray.__init__


def _checked_init(self, *a, **k):
    _orig_init(self, *a, **k)
    MON["constructed"] += 1
    try:
        dims = [ax.name for ax in self.axes]
        ok = (len(self.axes) == self.values.ndim
              and all(np.ndim(ax.values) == 1 or hasattr(ax, "axes") for ax in self.axes)
              and tuple(ax.size for ax in self.axes) == self.values.shape
              and all(isinstance(d, str) and d for d in dims) and len(set(dims)) == len(dims))
    except Exception as e:  # noqa
        ok = False
    if not ok and len(MON["illformed"]) < 5:
        MON["illformed"].append({"dims": [getattr(ax, "name", None) for ax in self.axes], "shape": list(np.shape(self.values))})


def monitor_on():
    DimArray.__init__ = _checked_init


def monitor_off():
    DimArray.__init__ = _orig_init


FORMS = ["lists+dims", "pairs", "objs", "dict+dims", "labels_kw", "lists_nodims", "names", "none", "dict_nodims",
         "odict", "helper"]


def py_labels(ax):
    return core.label_array(ax["labels"], ax["kind"])


def build_variant(form, axes, values):
    """call the real constructor with one way of specifying the axes"""
    dims = [a["name"] for a in axes]
    labs = [py_labels(a) for a in axes]
    if form == "lists+dims":
        return DimArray(values, axes=labs, dims=dims)
    if form == "lists_list+dims":
        return DimArray(values, axes=[l.tolist() for l in labs], dims=dims)
    if form == "pairs":
        return DimArray(values, axes=list(zip(dims, labs)))
    if form == "objs":
        return DimArray(values, axes=[Axis(l, d) for l, d in zip(labs, dims)])
    if form == "dict+dims":
        return DimArray(values, axes=dict(zip(dims, labs)), dims=dims)
    if form == "dict_nodims":
        return DimArray(values, axes=dict(zip(dims, labs)))
    if form == "odict":
        return DimArray(values, axes=OrderedDict(zip(dims, labs)), dims=dims)
    if form == "labels_kw":
        return DimArray(values, labels=labs, dims=dims)
    if form == "lists_nodims":
        return DimArray(values, axes=labs)
    if form == "names":
        return DimArray(values, axes=list(dims))
    if form == "none+dims":
        return DimArray(values, dims=dims)
    if form == "none":
        return DimArray(values)
    raise ValueError(form)


def lean_variant(form, axes):
    dims = [a["name"] for a in axes]
    named = [{"name": a["name"], "labels": a["labels"], "kind": a["kind"]} for a in axes]
    unnamed = [{"labels": a["labels"], "kind": a["kind"]} for a in axes]
    if form in ("lists+dims", "lists_list+dims", "labels_kw"):
        return {"arg": {"form": "lists", "items": unnamed}, "dims": dims}
    if form == "pairs":
        return {"arg": {"form": "pairs", "items": named}, "dims": None}
    if form == "objs":
        return {"arg": {"form": "objs", "items": named}, "dims": None}
    if form in ("dict+dims", "odict"):
        return {"arg": {"form": "dict", "items": named}, "dims": dims}
    if form == "dict_nodims":
        return {"arg": {"form": "dict", "items": named}, "dims": None}
    if form == "lists_nodims":
        return {"arg": {"form": "lists", "items": unnamed}, "dims": None}
    if form == "names":
        return {"arg": {"form": "names", "items": dims}, "dims": None}
    if form == "none+dims":
        return {"arg": {"form": "none"}, "dims": dims}
    if form == "none":
        return {"arg": {"form": "none"}, "dims": None}
    raise ValueError(form)


class C05(Prop):
    id = "C05"
    theorems = ["appendAll_ok_iff", "appendAll_rejects_duplicates", "initAxes_forms_agree", "construct_wf",
                "construct_rejects_shape", "take_wf", "takeAxisPos_wf"]
    rule = ("(a) constructor groups: one set of axes (rank 0-4, sizes 0-4, int/float/str labels) given through every "
            "documented form (label lists + dims, lists as python lists, (name, labels) pairs, Axis objects, dict + dims, "
            "OrderedDict, dict without dims, labels= keyword, names only, nothing) with values as ndarray / nested list / "
            "scalar, plus malformed variants (wrong length on one axis, duplicate or empty names, too few dims); the "
            "helpers zeros/ones/empty/nans; (c) DimArray.__init__ wrapped during the run: every array the library "
            "constructs is checked for well-formedness. Non-trivial = rank >= 1; distinct = canonical JSON")
    assumptions = ["dimension names are comma-free non-empty strings (the quantifier of the property)"]

    def mirrors(self):
        from dimarray.core import axes, dimarraycls
        return {"_init_axes": axes._init_axes, "Axes.append": axes.Axes.append, "Axes.from_dict": axes.Axes.from_dict,
                "Axes.from_arrays": axes.Axes.from_arrays, "Axes.from_shape": axes.Axes.from_shape,
                "DimArray.__init__": dimarraycls.DimArray.__init__, "_check_axis_values": axes._check_axis_values}

    # ------------------------------------------------------------ generation
    def gen_ctor(self, rng):
        rank = rng.choice([0, 1, 1, 2, 2, 3, 4])
        arr = gen.rand_array(rng, rank=rank, maxn=4)
        axes = [gen.clean(a) for a in arr["axes"]]
        vkind = arr["vkind"]
        malformed = None
        r = rng.random()
        if r < 0.12 and rank >= 1:
            malformed = "size"       # the values have another extent than the labels along one dimension
        elif r < 0.2 and rank >= 2:
            malformed = "dupname"
            axes[1]["name"] = axes[0]["name"]
        elif r < 0.24 and rank >= 1:
            malformed = "emptyname"
            axes[rng.randrange(rank)]["name"] = ""
        elif r < 0.34 and rank >= 1:
            malformed = "rank"       # the values have more / fewer dimensions than there are axes (leading sizes agree)
        shape = [len(a["labels"]) for a in axes]
        if malformed == "rank":
            if rng.random() < 0.6 or rank == 1:
                shape = shape + [rng.choice([1, 2, 3])]
            else:
                shape = shape[:-1]
        if malformed == "size":
            d = rng.randrange(rank)
            shape[d] += 1
        forms = ["lists+dims", "lists_list+dims", "pairs", "objs", "dict+dims", "odict", "labels_kw"]
        # forms that do not carry the labels are compared with the default labelling
        return {"op": "ctor", "axes": axes, "shape": shape, "vkind": vkind, "forms": forms,
                "values_as": rng.choice(["ndarray", "ndarray", "list", "list"]), "_malformed": malformed}

    def gen_default(self, rng):
        rank = rng.choice([0, 1, 2, 3])
        shape = [rng.randint(0, 3) for _ in range(rank)]
        names = rng.sample(gen.DIMS, rank)
        axes = [{"name": n, "kind": "i", "labels": [["n", i, 1] for i in range(s)]} for n, s in zip(names, shape)]
        # a list holding ONE string is read as the labels of a 1-D array by _init_axes, so the
        # names-only form (not among the documented forms of the property) is exercised for rank != 1
        forms = ["names", "none+dims"] if rank != 1 else ["none+dims"]
        return {"op": "ctor", "axes": axes, "shape": shape, "vkind": rng.choice(["f", "i"]), "forms": forms,
                "values_as": rng.choice(["ndarray", "list", "scalar" if rank == 0 else "list"]), "_malformed": None,
                "_default": True}

    def gen_xnames(self, rng):
        rank = rng.choice([0, 1, 2, 3])
        shape = [rng.randint(0, 3) for _ in range(rank)]
        axes = [{"name": "x%d" % i, "kind": "i", "labels": [["n", k, 1] for k in range(s)]} for i, s in enumerate(shape)]
        return {"op": "ctor", "axes": axes, "shape": shape, "vkind": rng.choice(["f", "i"]), "forms": ["none", "lists_nodims"],
                "values_as": rng.choice(["ndarray", "list", "scalar" if rank == 0 else "ndarray"]), "_malformed": None,
                "_default": True}

    def gen_helper(self, rng):
        rank = rng.choice([1, 2, 3])
        arr = gen.rand_array(rng, rank=rank, maxn=3)
        return {"op": "helper", "axes": [gen.clean(a) for a in arr["axes"]], "helper": rng.choice(["zeros", "ones", "empty", "nans"]),
                "form": rng.choice(["lists+dims", "pairs", "objs"])}

    def gen_hist(self, rng):
        """a history of derivations, queries and relabellings over a few live arrays, then probes"""
        rank = rng.choice([1, 1, 2])
        arr = gen.clean(gen.rand_array(rng, rank=rank, maxn=5, minn=2, kinds=[rng.choice(["i", "i", "f"]) for _ in range(rank)]))
        arr["vkind"] = rng.choice(["f", "f", "i"])
        shapes = [[len(a["labels"]) for a in arr["axes"]]]
        steps = []
        for _ in range(rng.randint(1, 5)):
            k = rng.randrange(len(shapes))
            sh = shapes[k]
            d = rng.randrange(len(sh))
            r = rng.random()
            if r < 0.35:
                steps.append(["query", k, rng.choice(["add_other", "is_monotonic", "align_other", "sort_axis", "reindex_other", "radd_other"]), d])
            elif r < 0.55 and sh[d] >= 1:
                lo = rng.randint(0, max(0, sh[d] - 1)); hi = rng.randint(lo, sh[d])
                steps.append(["slice", k, d, lo, hi]); shapes.append(sh[:d] + [hi - lo] + sh[d + 1:])
            elif r < 0.65 and sh[d] >= 1:
                ps = [rng.randrange(sh[d]) for _ in range(rng.randint(1, 3))]
                steps.append(["take", k, d, ps]); shapes.append(sh[:d] + [len(ps)] + sh[d + 1:])
            elif r < 0.70:
                steps.append(["transpose", k]); shapes.append(sh[::-1])
            elif r < 0.74 and sh[d] >= 2:
                # sorted by a key whose order is not the natural order of the labels
                steps.append(["sort_key", k, d, rng.choice([2, 4, 6])]); shapes.append(list(sh))
            elif r < 0.78:
                steps.append(["copy", k]); shapes.append(list(sh))
            elif r < 0.86 and sh[d] >= 1:
                steps.append(["relabel", k, d, rng.randrange(sh[d]), rng.choice([-7, 50, 3, 12])])
            elif r < 0.93:
                # assignment through the `values` setter: a scalar or a row, broadcast over the array
                steps.append(["set_values", k, rng.choice(["nan", "float", "row", "int"])])
            elif sh[d] >= 1:
                steps.append(["sort_inplace", k, d])
        return {"op": "hist", "array": arr, "steps": steps, "forms": []}

    def gen(self, rng, tier):
        n = 500 if tier == "quick" else 8000
        for _ in range(300 if tier == "quick" else 8000):
            yield self.gen_hist(rng)
        for _ in range(n):
            r = rng.random()
            if r < 0.6:
                yield self.gen_ctor(rng)
            elif r < 0.75:
                yield self.gen_default(rng)
            elif r < 0.88:
                yield self.gen_xnames(rng)
            else:
                yield self.gen_helper(rng)

    # ------------------------------------------------------------ implementation side
    def values_of(self, c):
        shape = tuple(c["shape"])
        v = core.make_values(shape, c["vkind"], 0)
        if c["values_as"] == "list" and not (0 in shape and len(shape) >= 2):
            return v.tolist()      # (a nested list cannot express a shape such as (0, 3))
        if c["values_as"] == "scalar":
            return v.reshape(()).item()
        return v

    def other_for(self, x, d):
        """an array sharing dimension d with labels overlapping those of x"""
        ax = x.axes[d]
        labs = np.array(sorted(set([0, 2] + [int(v) for v in np.asarray(ax.values, dtype=float)[:1]])), dtype=ax.values.dtype if ax.values.dtype.kind in "if" else float)
        return DimArray(np.arange(len(labs)) * 100.0, axes=[Axis(labs, ax.name)])

    def run_hist(self, c):
        import warnings
        env = [core.build_array(c["array"], 0)]
        for st in c["steps"]:
            t, k = st[0], st[1]
            a = env[k]
            try:
                with warnings.catch_warnings():
                    warnings.simplefilter("ignore")
                    if t == "query":
                        q, d = st[2], st[3]
                        o = self.other_for(a, d)
                        if q == "add_other":
                            a + o
                        elif q == "radd_other":
                            o + a
                        elif q == "is_monotonic":
                            a.axes[d].is_monotonic()
                        elif q == "align_other":
                            da.align(a, o, join="outer")
                        elif q == "sort_axis":
                            a.sort_axis(axis=d)
                        elif q == "reindex_other":
                            a.reindex_axis(o.axes[0].values, axis=d)
                    elif t == "slice":
                        key = tuple(slice(st[3], st[4]) if i == st[2] else slice(None) for i in range(a.ndim))
                        env.append(a.ix[key])
                    elif t == "take":
                        env.append(a.take(list(st[3]), axis=st[2], indexing="position"))
                    elif t == "transpose":
                        env.append(a.transpose())
                    elif t == "sort_key":
                        ctr = st[3]
                        env.append(a.sort_axis(axis=st[2], key=lambda x: abs(float(x) - ctr)))
                    elif t == "copy":
                        env.append(a.copy())
                    elif t == "relabel":
                        a.axes[st[2]][st[3]] = st[4]
                    elif t == "set_values":
                        how = st[2]
                        if how == "nan":
                            a.values = np.nan
                        elif how == "float":
                            a.values = 2.5
                        elif how == "int":
                            a.values = 7
                        else:
                            a.values = np.arange(a.shape[-1]) + 0.5
                    elif t == "sort_inplace":
                        pass
            except Exception:
                if t in ("slice", "take", "transpose", "copy", "sort_key"):
                    env.append(a)
        # every live array is still well-formed: one axis per dimension, of the length of that dimension
        illformed = []
        for k, a in enumerate(env):
            if not isinstance(a, DimArray):
                illformed.append({"var": k, "not_a_dimarray": type(a).__name__})
            elif len(a.axes) != np.ndim(a.values) or tuple(ax.size for ax in a.axes) != np.shape(a.values):
                illformed.append({"var": k, "axes": [int(ax.size) for ax in a.axes], "values_shape": list(np.shape(a.values))})
        if illformed:
            return {"ok": [], "illformed": illformed}
        # probes: every live array against a freshly constructed equal array
        out = []
        for a in env:
            f = DimArray(np.array(a.values, copy=True), axes=[Axis(np.array(ax.values, copy=True), ax.name) for ax in a.axes])
            res = []
            for d in range(a.ndim):
                o = self.other_for(f, d)
                probes = [("add", lambda x: x + o), ("radd", lambda x: o + x), ("align", lambda x: da.align(x, o, join="outer")[0]),
                          ("align_sort", lambda x: da.align(x, o, join="outer", sort=True)[0]),
                          ("reindex", lambda x: x.reindex_axis(o.axes[0].values, axis=d)),
                          ("sort_axis", lambda x: x.sort_axis(axis=d)),
                          ("slice", lambda x: x.take(slice(x.axes[d].values.min(), None), axis=d) if x.axes[d].size else x),
                          ("loc_first", lambda x: x.take([x.axes[d].values[0]], axis=d) if x.axes[d].size else x),
                          ("is_monotonic", lambda x: bool(x.axes[d].is_monotonic()))]
                for name, fn in probes:
                    def run(x):
                        with warnings.catch_warnings():
                            warnings.simplefilter("ignore")
                            r = fn(x)
                        return core.obs_array(r) if isinstance(r, DimArray) else r
                    res.append({"probe": name, "d": d, "hist": core.guarded(lambda: run(a)), "fresh": core.guarded(lambda: run(f))})
            out.append(res)
        return {"ok": out}

    def impl(self, c):
        if c["op"] == "hist":
            monitor_on()
            try:
                return self.run_hist(c)
            finally:
                monitor_off()
        monitor_on()
        try:
            if c["op"] == "helper":
                axes = c["axes"]
                dims = [a["name"] for a in axes]
                labs = [py_labels(a) for a in axes]
                fn = getattr(da, c["helper"])
                def run():
                    if c["form"] == "lists+dims":
                        r = fn(axes=labs, dims=dims)
                    elif c["form"] == "pairs":
                        r = fn(axes=list(zip(dims, labs)))
                    else:
                        r = fn(axes=[Axis(l, d) for l, d in zip(labs, dims)])
                    o = core.obs_array(r)
                    want = {"zeros": 0.0, "ones": 1.0}.get(c["helper"])
                    if want is not None:
                        o["all_const"] = bool(np.all(r.values == want))
                    elif c["helper"] == "nans":
                        o["all_const"] = bool(np.all(np.isnan(r.values)))
                    else:
                        o["all_const"] = True
                    o["values"] = []
                    return o
                return core.guarded(run)
            outs = []
            for form in c["forms"]:
                vals = self.values_of(c)
                outs.append(core.guarded(lambda: core.obs_array(build_variant(form, c["axes"], vals))))
            return {"ok": outs}
        finally:
            monitor_off()

    def request(self, c):
        if c["op"] == "hist":
            return {"op": "construct_group", "shape": [], "vkind": "f", "variants": []}
        if c["op"] == "helper":
            shape = [len(a["labels"]) for a in c["axes"]]
            return {"op": "construct_group", "shape": shape, "vkind": "f", "variants": [lean_variant(c["form"], c["axes"])]}
        return {"op": "construct_group", "shape": c["shape"], "vkind": c["vkind"],
                "variants": [lean_variant(f, c["axes"]) for f in c["forms"]]}

    def judge(self, c, io, ans):
        bad = []
        detail = {}
        if c["op"] == "hist":
            if "err" in io:
                return {"kind": "P", "differs": ["outcome:" + io["err"]], "msg": io.get("msg")}
            if io.get("illformed"):
                return {"kind": "P", "differs": ["illformed_after_history"], "detail": {"first": io["illformed"][0]}}
            for v, res in enumerate(io["ok"]):
                for r in res:
                    h, f = r["hist"], r["fresh"]
                    same = (("err" in h) == ("err" in f)) and (("err" in h and h["err"] == f["err"]) or ("ok" in h and h["ok"] == f["ok"]))
                    if not same:
                        bad.append("history_dependent:%s" % r["probe"])
                        detail.setdefault("first", {"var": v, "probe": r["probe"], "d": r["d"], "hist": h, "fresh": f})
            if not bad:
                return None
            return {"kind": "P", "differs": sorted(set(bad)), "detail": detail}
        if c["op"] == "helper":
            lean = ans["lib"][0]
            if "err" in io or "err" in lean:
                if ("err" in io) != ("err" in lean):
                    bad.append("outcome")
            else:
                for k in ("dims", "shape"):
                    if io["ok"][k] != lean["ok"][k]:
                        bad.append(k)
                if [a["labels"] for a in io["ok"]["axes"]] != [a["labels"] for a in lean["ok"]["axes"]]:
                    bad.append("axes.labels")
                if not io["ok"]["all_const"]:
                    bad.append("values")
            mm = self.classify(bad)
            if mm:
                mm["impl"] = io
            return mm
        vals = core.make_values(tuple(c["shape"]), c["vkind"], 0)
        env = core.CellEnv([vals])
        oks = []
        for form, o, l in zip(c["forms"], io["ok"], ans["lib"]):
            if "ok" in l:
                lo = core.lean_obs_to_canon(l["ok"], env)
                lo["scalar"] = False
                l = {"ok": lo}
            d = core.diff_obs(o, l, keys=("dims", "shape", "axes", "values"))
            # a raised exception: the property fixes that the input is rejected, not the class
            d = [x for x in d if x != "errclass"]
            # (the class of the exception raised for a rejected input is not part of the property
            #  and not compared: a dict collapses duplicate names before dimarray sees them, etc.)
            if d:
                bad += d
                detail[form] = {"impl": o if "err" in o else {k: o["ok"][k] for k in ("dims", "shape")}, "msg": o.get("msg"),
                                "lean": l if "err" in l else {k: l["ok"][k] for k in ("dims", "shape")}}
            if "ok" in o:
                oks.append((form, o["ok"]))
        # all documented forms build equal arrays
        for (f1, o1), (f2, o2) in zip(oks, oks[1:]):
            for k in ("dims", "shape", "values"):
                if o1[k] != o2[k]:
                    bad.append("forms_agree." + k)
            if [(a["name"], a["labels"]) for a in o1["axes"]] != [(a["name"], a["labels"]) for a in o2["axes"]]:
                bad.append("forms_agree.axes")
        if c.get("_malformed") and oks:
            bad.append("accepted_malformed")
        if not c.get("_malformed") and not oks:
            bad.append("rejected_wellformed")
        if not bad:
            return None
        p = [b for b in bad if not b.startswith("M.") and b not in ("axes.kind", "vkind")]
        return {"kind": "P" if p else "M", "differs": sorted(set(bad)), "detail": detail}

    def extra_evidence(self):
        return {"monitor_arrays_constructed": MON["constructed"], "monitor_illformed": MON["illformed"]}

    def nontrivial(self, c):
        if c["op"] == "hist":
            return len(c["steps"]) >= 1
        return len(c["axes"]) >= 1

    def features(self, c, io):
        if c["op"] == "hist":
            f = {"op": "hist", "rank": len(c["array"]["axes"]), "nsteps": len(c["steps"])}
            for st in c["steps"]:
                f["step:" + st[0] + (":" + st[2] if st[0] == "query" else "")] = 1
            return f
        f = {"op": c["op"], "rank": len(c["axes"]), "malformed": c.get("_malformed"), "values_as": c.get("values_as")}
        if c["op"] == "ctor":
            f["n_rejected"] = sum(1 for o in io["ok"] if "err" in o)
        return f

    def size(self, c):
        if c["op"] == "hist":
            return len(json.dumps(c))
        return sum(len(a["labels"]) for a in c["axes"]) + 10 * len(c["axes"])

    def snippet(self, c):
        return ("import sys; sys.path.insert(0, '/verif/harness'); import json, core; from props.c05 import PROP; "
                "case = json.load(open(REPLAY))['case']; print(PROP.impl(case))")


PROP = C05()

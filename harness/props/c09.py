"""C09 - cumulative, difference and arg-extremum operations keep axis bookkeeping right."""
import copy, itertools, math, warnings
from fractions import Fraction
import numpy as np
import core, gen
from core import da, Axis, DimArray
from .base import Prop
from .c08 import axis_py, nan_pattern, lean_axis_arg, resolve_dims, spell_elems, add_axis_attrs
from .c06 import lab_key

DUMMY = {"op": "union", "a": {"name": "x", "kind": "i", "labels": []}, "b": {"name": "x", "kind": "i", "labels": []}, "join": "outer"}

# (repaired: a.diff(axis=(d1, d2)) without keepaxis raised AttributeError "MultiAxis object has no attribute _monotonic" -
# the grouped axis could not be sliced - for the backward / forward schemes; MultiAxis.__init__ now initialises the cached
# ordering state.  The tuple stratum of diff is generated with both keepaxis settings.)
TODO_DEFECT_DIFF_TUPLE = False


def canon_component(x):
    """a label as it comes back inside a grouped (tuple) label: NumPy may have coerced the components of mixed-kind
    tuples to a common kind (int -> float, anything -> str); compared modulo that coercion, as C11 does"""
    try:
        return ("n", Fraction(float(x)))
    except (TypeError, ValueError):
        return ("s", str(x))


def comp_of_canon(v):
    """canonical value / encoded label -> comparable component"""
    if v[0] == "n":
        return ("n", Fraction(v[1], v[2]))
    if v[0] == "s":
        return canon_component(v[1])
    if v[0] == "b":
        return ("n", Fraction(int(v[1])))
    return ("?", json_key(v))


def json_key(v):
    import json
    return json.dumps(v, sort_keys=True)


def nan_scan(fn, skipna):
    if not skipna:
        return np.cumsum if fn == "cumsum" else np.cumprod
    return np.nancumsum if fn == "cumsum" else np.nancumprod


def fl(v):
    v = float(v)
    return ["nan"] if math.isnan(v) else ["r", float("%.11e" % v)]


class C09(Prop):
    id = "C09"
    theorems = ["cum_axes_unchanged", "cum_prefix", "diff1_backward_labels", "diff1_forward_labels",
                "diff1_centered_labels", "diff1_keepaxis_labels", "diff1_values", "diff1_keepaxis_pad", "diff1_other_axes",
                "arg_labels", "diffAxis_iterate", "diffN_values", "diff2_values", "diffN_total", "diffN_labels", "diffN_empty",
                "diffN_keepaxis", "cum_last_eq_reduce", "arg_value_spec", "arg_whole_spec", "arg_label_dup_counterexample",
                "argWhole_eq_labels", "argWhole_spec", "argWhole_index_back"]
    rule = ("numeric (float/int) arrays of rank 1-4 with sizes 1-5 along the operated axis, numeric sorted / unsorted and "
            "str labels, metadata on the array and on (some of) its axes, NaNs (some / whole fibre / all) in the values; "
            "cumsum / cumprod (default and every axis by name / position, tuples / lists of names and positions; skipna "
            "default / False / True, by keyword or positionally); diff with n in {1,2,3}, the three "
            "schemes and both keepaxis settings, NaNs propagating, and over a tuple of dimensions (both keepaxis "
            "settings); argmin / argmax over the whole array, along each axis and over tuples of "
            "dimensions, with ties, NaNs, all-NaN slices and both skipna settings, checked also by indexing back. "
            "Non-trivial = operated axis longer than 1; distinct = canonical JSON")
    assumptions = ["np.cumsum / np.diff / np.argmin (and the nan-prefixed variants for skipna=True) on a 1-D fibre are NumPy's",
                   "label tuples returned by argmin / argmax over several dimensions are compared component-wise modulo "
                   "NumPy's coercion of mixed-kind tuples (int -> float, anything -> str), as in C11",
                   "a slice with nothing left once NaNs are skipped: NumPy's nanargmin raises ValueError; nothing is demanded there"]

    def mirrors(self):
        import sys as _s
        t = _s.modules["dimarray.core.transform"]
        return {"cumsum": t.cumsum, "cumprod": t.cumprod, "diff": t.diff, "_append_nans": t._append_nans,
                "argmin": t.argmin, "argmax": t.argmax, "apply_along_axis": t.apply_along_axis}

    def gen(self, rng, tier):
        n = 1000 if tier == "quick" else 25000
        for _ in range(n):
            rank = rng.choice([1, 1, 2, 2, 3, 4])
            arr = gen.rand_array(rng, rank=rank, maxn=3, minn=1)
            d = rng.randrange(rank)
            # the operated axis: 1-5 labels
            kind = rng.choice(["i", "f", "O", "i"])
            arr["axes"][d] = gen.rand_axis(rng, arr["axes"][d]["name"], kind=kind, n=rng.randint(1, 5))
            arr["vkind"] = rng.choice(["f", "f", "i"])
            shape = [len(a["labels"]) for a in arr["axes"]]
            if rng.random() < 0.4:
                arr["attrs_py"] = {"units": "m"}
            names = [a["name"] for a in arr["axes"]]
            ax = rng.choice([["name", names[d]], ["pos", d], ["pos", d - rank]])
            gen.dtype_variants(rng, arr)      # unsigned / narrow label dtypes, float32 / int32 values, Fortran order
            if rng.random() < 0.4:
                add_axis_attrs(rng, arr)
            many = None
            if rank >= 2 and rng.random() < 0.25:
                # a tuple / list of dimensions (names, positions or a mix) in any order
                listed = rng.sample(names, 2 if rank == 2 else rng.choice([2, 2, 2] + list(range(3, rank + 1))))
                many = ["many", spell_elems(rng, listed, names, rng.choice(["names", "names", "pos", "neg", "mixed"]))]
                if rng.random() < 0.25:
                    many.append("list")
            r = rng.random()
            if r < 0.27:
                if arr["vkind"] == "f" and rng.random() < 0.5:
                    arr["nan_at"] = nan_pattern(rng, shape, rng.choice(["some", "some", "fibre", "all"]))
                axc = ax if rng.random() < 0.8 else "default"
                if many is not None:
                    # accumulated along the grouped dimension, in the listed order
                    axc = many
                if arr["vkind"] == "i" and rng.random() < 0.35:
                    # narrow integer data whose running totals leave the dtype's range: NumPy accumulates in the platform
                    # integer, the result is NumPy's cumulative result (no wrap-around)
                    vd = rng.choice(["int8", "uint8", "int16"])
                    size = 1
                    for n_ in shape:
                        size *= n_
                    top = {"int8": 127, "uint8": 255, "int16": 32767}[vd]
                    if size + 1 < top:
                        arr["vdtype"] = vd
                        arr["vbase"] = top - size - 1
                c = {"op": "cum", "array": arr, "fn": rng.choice(["cumsum", "cumprod"]), "axis": axc,
                     "skipna": rng.choice([None, None, False, True, True])}
                if arr.get("vbase"):
                    c["fn"] = "cumsum"              # (products of such values leave int64 too)
                if c["skipna"] is not None and axc != "default" and rng.random() < 0.25:
                    c["positional"] = True          # a.cumsum(axis, skipna)
                yield c
            elif r < 0.65:
                if arr["vkind"] == "f" and rng.random() < 0.3:
                    arr["nan_at"] = nan_pattern(rng, shape, rng.choice(["some", "some", "fibre"]))
                c = {"op": "diff", "array": arr, "axis": ax if rng.random() < 0.85 else "default", "n": rng.choice([1, 1, 2, 3]),
                     "scheme": rng.choice(["backward", "forward", "centered"]), "keepaxis": rng.random() < 0.4}
                if many is not None and rng.random() < 0.6:
                    c["axis"] = many
                    c["scheme"] = rng.choice(["backward", "forward"])
                    if TODO_DEFECT_DIFF_TUPLE:
                        c["keepaxis"] = True
                yield c
            else:
                if arr["vkind"] == "f":
                    arr["nan_at"] = nan_pattern(rng, shape, rng.choice(["none", "none", "some", "some", "fibre", "all"]))
                # ties: duplicate some values
                arr["ties"] = rng.random() < 0.4
                # values in a scrambled order: the extremum is not at a corner of the array (where C-order and
                # Fortran-order unravelling of the flat position coincide)
                if rng.random() < 0.6:
                    arr["scramble"] = rng.randrange(1, 10 ** 6)
                c = {"op": "arg", "array": arr, "fn": rng.choice(["argmin", "argmax"]),
                     "axis": ax if rng.random() < 0.75 else None, "skipna": rng.choice([None, None, False, True, True])}
                if many is not None:
                    c["axis"] = many
                if c["skipna"] is not None and c["axis"] is not None and rng.random() < 0.25:
                    c["positional"] = True          # a.argmin(axis, skipna)
                yield c

    def build(self, c):
        a = core.build_array(c["array"], 0)
        if c["array"].get("ties") or c["array"].get("scramble"):
            v = np.ascontiguousarray(a.values)
            flat = v.reshape(-1).copy()
            if c["array"].get("scramble"):
                # (the NaN cells stay where the case says they are: only the other values change places)
                free = np.flatnonzero(~np.isnan(flat)) if flat.dtype.kind == "f" else np.arange(flat.size)
                flat[free] = flat[free][np.random.RandomState(c["array"]["scramble"]).permutation(free.size)]
            for i in range(0, flat.size - 1, 2):
                if not c["array"].get("ties"):
                    break
                if not (flat.dtype.kind == "f" and (math.isnan(flat[i]) or math.isnan(flat[i + 1]))):
                    flat[i + 1] = flat[i]
            v2 = flat.reshape(v.shape)
            if c["array"].get("order") == "F" and v2.ndim >= 2:
                v2 = np.asfortranarray(v2)
            a = DimArray(v2, axes=[ax.copy() for ax in a.axes])
            a.attrs.update(core.build_array(c["array"], 0).attrs)
        return a

    def call_args(self, c):
        """(args, kwargs) of the call as the case spells it: axis / skipna by keyword, positionally or left out"""
        args, kw = [], {}
        sk = c.get("skipna")
        if c.get("positional"):
            args = [axis_py(c["axis"]), sk]
        else:
            if c["axis"] != "default":
                kw["axis"] = axis_py(c["axis"])
            if sk is not None:
                kw["skipna"] = sk
        return args, kw

    def impl(self, c):
        toks = core.AttrTokens()
        a = self.build(c)
        before = core.obs_array(a, toks)

        def lab(x):
            return core.enc_label(x if not isinstance(x, np.generic) else x.item())

        def run():
            with warnings.catch_warnings():
                warnings.simplefilter("ignore")
                with np.errstate(all="ignore"):
                    if c["op"] == "cum":
                        args, kw = self.call_args(c)
                        r = getattr(a, c["fn"])(*args, **kw)
                    elif c["op"] == "diff":
                        kw = {"n": c["n"], "scheme": c["scheme"], "keepaxis": c["keepaxis"]}
                        r = a.diff(**kw) if c["axis"] == "default" else a.diff(axis=axis_py(c["axis"]), **kw)
                    else:
                        args, kw = self.call_args(c)
                        r = getattr(a, c["fn"])(*args, **kw)
                        if c["axis"] is None:
                            # tuple of labels: index back
                            val = a[r] if a.ndim > 1 else a[r[0]]
                            return {"tuple": [lab(x) for x in r],
                                    "at": core.canon_value(val), "scalar": True, "dims": [], "axes": [], "shape": [], "values": [], "attrs": None, "vkind": "O"}
                        if isinstance(r, tuple):
                            # every dimension listed: one tuple of labels, in the listed order
                            return {"tuple": [lab(x) for x in r], "scalar": True, "dims": [], "axes": [], "shape": [],
                                    "values": [], "attrs": None, "vkind": "O"}
            return core.obs_array(r, toks)
        out = core.guarded(run)
        out["input"] = before
        if core.obs_array(a, toks) != before:
            out["operand_modified"] = True
        return out

    def modelled(self, c):
        """is the case sent to the Lean mirror?  (tuple axes of diff / argmin / argmax: grouped tuple labels are not
        modelled there, the oracle decides alone)"""
        ax = c["axis"]
        return not (c["op"] in ("diff", "arg") and ax not in (None, "default") and ax[0] == "many")

    def request(self, c):
        if not self.modelled(c):
            return dict(DUMMY)
        toks = core.AttrTokens()
        arr = core.lean_array(gen.clean(c["array"]), toks)
        rank = len(c["array"]["axes"])
        ax = c["axis"]
        if ax == "default":
            ax = ["pos", -1]
        ax = lean_axis_arg(ax)
        if c["op"] == "cum":
            return {"op": "transform", "fn": "cum", "arrays": [arr], "axis": ax}
        if c["op"] == "diff":
            return {"op": "transform", "fn": "diff", "arrays": [arr], "axis": ax, "scheme": c["scheme"], "keepaxis": c["keepaxis"], "n": c["n"]}
        if ax is None:
            # whole array (axis=None): the mirror Lib.argWhole, one symbolic label cell per dimension
            return {"op": "transform", "fn": "argwhole", "arrays": [arr]}
        return {"op": "transform", "fn": "arg", "arrays": [arr], "axis": ax}

    # ------------------------------------------------------------ argmin / argmax
    def judge_arg(self, c, io, lean, a):
        bad, prop_bad = [], []
        vals = a.values
        names = list(a.dims)
        skip = bool(c.get("skipna"))
        if skip:
            # "NaNs are ignored as missing values": the extremum of what is left, NumPy's nanarg* position
            argf = np.nanargmin if c["fn"] == "argmin" else np.nanargmax
            ext = np.nanmin if c["fn"] == "argmin" else np.nanmax
        else:
            argf = np.argmin if c["fn"] == "argmin" else np.argmax
            ext = np.min if c["fn"] == "argmin" else np.max

        def allnan(x):
            x = np.asarray(x)
            return bool(skip and x.dtype.kind == "f" and x.size and np.all(np.isnan(x)))

        def done():
            if io.get("operand_modified"):
                prop_bad.append("operand_modified")
            if not bad and not prop_bad:
                return None
            return {"kind": "P" if prop_bad else "M", "differs": sorted(set(bad + prop_bad)), "msg": io.get("msg")}

        def same_axes(got, keep):
            """the result is laid out over the remaining dimensions, which are the input's (labels and metadata)"""
            if got["dims"] != keep:
                prop_bad.append("dims:remaining")
                return False
            in_axes = {x["name"]: x for x in io["input"]["axes"]}
            for x in got["axes"]:
                if x["labels"] != in_axes[x["name"]]["labels"]:
                    prop_bad.append("axes.labels")
                if x["attrs"] != in_axes[x["name"]]["attrs"]:
                    prop_bad.append("axes.attrs")
            return "axes.labels" not in prop_bad

        class Env(core.CellEnv):
            """`arg(cells, table)`: the entry of `table` at NumPy's arg-position of `cells` (Lean: `pickLabel argp lab`)"""
            def ev(self, cell):
                if cell[0] == "arg":
                    fib = np.array([self.ev(x) for x in cell[1]], dtype=float)
                    with warnings.catch_warnings():
                        warnings.simplefilter("ignore")
                        p = int(argf(fib))
                    return core.dec_label(cell[2][p])
                return core.CellEnv.ev(self, cell)

        if c["axis"] is None:
            # whole array: returned labels index back to the extremum
            if allnan(vals):
                # nothing is left once the NaNs are skipped: NumPy's nanarg* raises ValueError; nothing more is stated
                if "err" in io and io["err"] != "value":
                    prop_bad.append("outcome:" + io["err"])
                return done()
            # ---- the mirror (Lib.argWhole): one label per dimension, evaluated at NumPy's flat arg-position of the
            # row-major cell list the model hands over
            if "ok" in lean:
                env = Env([vals])
                lt = [core.canon_value(env.ev(x)) for x in lean["ok"]["tuple"]]
                if "err" in io:
                    bad.append("outcome")
                elif len(lt) != len(io["ok"]["tuple"]) or [same_label(x, y) for x, y in zip(io["ok"]["tuple"], lt)].count(False):
                    bad.append("values")
            elif "ok" in io:
                bad.append("outcome")
            elif io["err"] != lean["err"]:
                bad.append("M.errclass")
            if "ok" in io:
                with warnings.catch_warnings():
                    warnings.simplefilter("ignore")
                    want = ext(vals)
                if io["ok"]["at"] != core.canon_value(want.item() if isinstance(want, np.generic) else want):
                    prop_bad.append("values:index_back")
                pos = np.unravel_index(argf(vals), vals.shape)
                wl = [core.enc_label(ax.values[p].item() if isinstance(ax.values[p], np.generic) else ax.values[p]) for ax, p in zip(a.axes, pos)]
                if io["ok"]["tuple"] != wl:
                    prop_bad.append("axes.labels:arg")
            else:
                prop_bad.append("outcome:" + io["err"])
            return done()

        if c["axis"][0] == "many":
            # several dimensions at once: per cell of the remaining dimensions a tuple of labels (one per listed
            # dimension, in the listed order) that indexes back to the extremum over the listed dimensions
            listed = resolve_dims(c["axis"], names)
            rest = [d for d in names if d not in listed]
            v = vals.transpose([names.index(d) for d in rest + listed])
            rshape = v.shape[:len(rest)]
            rows = v.reshape(int(np.prod(rshape)) if rshape else 1, -1)
            dead = [allnan(r) for r in rows]
            if "err" in io:
                if not (any(dead) and io["err"] == "value"):
                    prop_bad.append("outcome:" + io["err"])
                return done()
            got = io["ok"]
            if not rest:
                if "tuple" not in got:
                    prop_bad.append("scalar")
                    return done()
                tuples = [got["tuple"]]
            else:
                if got.get("scalar") or not same_axes(got, rest):
                    if got.get("scalar"):
                        prop_bad.append("dims:remaining")
                    return done()
                if got["shape"] != list(rshape):
                    prop_bad.append("shape")
                    return done()
                tuples = [x[1] if x[0] == "t" else None for x in got["values"]]
            in_axes = {x["name"]: x for x in io["input"]["axes"]}
            for k, (row, t) in enumerate(zip(rows, tuples)):
                if dead[k]:
                    continue
                if t is None or len(t) != len(listed):
                    prop_bad.append("values:label_tuple")
                    break
                where = dict(zip(rest, np.unravel_index(k, rshape))) if rest else {}
                for d, comp in zip(listed, t):
                    cands = [j for j, l in enumerate(in_axes[d]["labels"]) if comp_of_canon(l) == comp_of_canon(comp)]
                    if not cands:
                        prop_bad.append("axes.labels:arg")
                        break
                    where[d] = cands[0]
                else:
                    with warnings.catch_warnings():
                        warnings.simplefilter("ignore")
                        want = ext(row)
                    at = vals[tuple(where[d] for d in names)]
                    if core.canon_value(at) != core.canon_value(want):
                        prop_bad.append("values:index_back")
                        break
                    continue
                break
            return done()

        # ---- along one dimension
        pos = names.index(c["axis"][1]) if c["axis"][0] == "name" else c["axis"][1] % a.ndim
        keep = [d for i, d in enumerate(names) if i != pos]
        fibs = np.moveaxis(vals, pos, -1).reshape(-1, vals.shape[pos])
        dead = [allnan(f) for f in fibs]

        env = Env([vals])
        if any(dead):
            # a slice with nothing left once the NaNs are skipped: NumPy's nanarg* raises ValueError; the cells of the
            # other slices are still decided below when a result comes back
            if "err" in io:
                if io["err"] != "value":
                    prop_bad.append("outcome:" + io["err"])
                return done()
        elif "ok" in lean:
            lo = lean["ok"]
            if "scalar" in lo:
                lv = [core.canon_value(env.ev(lo["scalar"]))]; ldims = []; laxes = []; lattrs = None
            else:
                lv = [core.canon_value(env.ev(x)) for x in lo["cells"]]; ldims = lo["dims"]; laxes = lo["axes"]; lattrs = lo.get("attrs")
            if "err" in io:
                bad.append("outcome")
            else:
                got = io["ok"]
                if got["dims"] != ldims:
                    bad.append("dims")
                elif [(x["name"], x["labels"]) for x in got["axes"]] != [(x["name"], x["labels"]) for x in laxes]:
                    bad.append("axes")
                elif [x["attrs"] for x in got["axes"]] != [x.get("attrs", []) for x in laxes]:
                    bad.append("axes.attrs")
                if [same_label(x, y) for x, y in zip(got["values"], lv)].count(False) or len(lv) != len(got["values"]):
                    bad.append("values")
                if not got["scalar"] and lattrs is not None and got["attrs"] != lattrs:
                    bad.append("M.attrs")          # (the statement says nothing about the metadata of argmin / argmax)
        elif "ok" in io:
            bad.append("outcome")
        if "ok" in io:
            got = io["ok"]
            # the returned label is the label at NumPy's position of the extremum along the dimension
            labs = a.axes[pos].values
            want = []
            for f, dd in zip(fibs, dead):
                if dd:
                    want.append(None)
                    continue
                with warnings.catch_warnings():
                    warnings.simplefilter("ignore")
                    x = labs[int(argf(f))]
                want.append(core.canon_value(x.item() if isinstance(x, np.generic) else x))
            if len(want) != len(got["values"]) or [w is not None and not same_label(x, w) for x, w in zip(got["values"], want)].count(True):
                prop_bad.append("values:labels_of_extremum")
            if got["scalar"]:
                if keep:
                    prop_bad.append("dims:remaining")
            else:
                same_axes(got, keep)
        elif "ok" in lean:
            prop_bad.append("outcome:" + io["err"])
        return done()

    # ------------------------------------------------------------ diff over several dimensions
    def judge_diff_many(self, c, io, a):
        """diff over a tuple of dimensions: the listed dimensions grouped (in the listed order) into one leading
        dimension, NumPy's n-th difference along it; keepaxis keeps the grouped labels and pads NaN"""
        prop_bad = []
        vals = a.values
        names = list(a.dims)
        listed = resolve_dims(c["axis"], names)
        rest = [d for d in names if d not in listed]
        n = c["n"]
        if "err" in io:
            prop_bad.append("outcome:" + io["err"])
        else:
            got = io["ok"]
            v = vals.transpose([names.index(d) for d in listed + rest])
            v = v.reshape((-1,) + v.shape[len(listed):]).astype(float)
            L = v.shape[0]
            in_axes = {x["name"]: x for x in io["input"]["axes"]}
            combos = [[comp_of_canon(l) for l in combo] for combo in itertools.product(*[in_axes[d]["labels"] for d in listed])]
            with warnings.catch_warnings():
                warnings.simplefilter("ignore")
                inner = np.diff(v, n=n, axis=0)
            if c["keepaxis"]:
                pad = np.full((min(n, L),) + v.shape[1:], np.nan)
                want = np.concatenate([pad, inner], axis=0) if c["scheme"] == "backward" else np.concatenate([inner, pad], axis=0)
                wl = combos
                if L < n:
                    want = None
            else:
                want = inner
                wl = combos[n:] if c["scheme"] == "backward" else combos[:max(L - n, 0)]
            if got["dims"] != [",".join(listed)] + rest:
                prop_bad.append("dims:grouped")
            else:
                g = got["axes"][0]
                if not c["keepaxis"]:
                    # the shortened axis is a selection of the group's combinations (no longer the full product of the
                    # member axes): a plain axis holding the remaining tuples
                    if g.get("members") or [[comp_of_canon(x) for x in l[1]] if l[0] == "t" else None for l in g["labels"]] != wl:
                        prop_bad.append("axes.labels:grouped")
                elif [m["name"] for m in g.get("members", [])] != listed:
                    prop_bad.append("axes.members")
                elif [[canon_component(x) for x in t] for t in g.get("tuples", [])] != wl:
                    prop_bad.append("axes.labels:grouped")
                for x in got["axes"][1:]:
                    if x["labels"] != in_axes[x["name"]]["labels"]:
                        prop_bad.append("axes.labels")
                    if x["attrs"] != in_axes[x["name"]]["attrs"]:
                        prop_bad.append("axes.attrs")
                if want is not None:
                    if got["shape"] != list(want.shape):
                        prop_bad.append("shape")
                    elif [fl(core_val(x)) for x in got["values"]] != [fl(x) for x in want.reshape(-1)]:
                        prop_bad.append("values:numpy")
            if got["attrs"] != io["input"]["attrs"]:
                prop_bad.append("attrs")
        if io.get("operand_modified"):
            prop_bad.append("operand_modified")
        if not prop_bad:
            return None
        return {"kind": "P", "differs": sorted(set(prop_bad)), "msg": io.get("msg")}

    def judge(self, c, io, ans):
        lean = ans["lib"] if self.modelled(c) else None
        bad, prop_bad = [], []
        a = self.build(c)
        vals = a.values
        if c["op"] == "arg":
            return self.judge_arg(c, io, lean, a)
        if c["op"] == "diff" and lean is None:
            return self.judge_diff_many(c, io, a)
        if True:
            scan = nan_scan(c.get("fn"), c.get("skipna"))

            def scan_cells(x):
                # a fibre rebuilt from symbolic cells: the NaN cells are Python floats, which would promote a
                # single-precision fibre to double precision; NumPy accumulates in the array's own precision
                x = np.asarray(x)
                return scan(x.astype(vals.dtype) if vals.dtype.kind == "f" else x)
            env = core.CellEnv([vals], scan=scan_cells)
            if "ok" in lean:
                lo = core.lean_obs_to_canon(lean["ok"], env)
                lo["values"] = [fl(env.ev(x)) for x in lean["ok"]["cells"]]
                if "err" in io:
                    bad.append("outcome")
                else:
                    got = dict(io["ok"]); got["values"] = [fl(core_val(v)) for v in io["ok"]["values"]]
                    d = core.diff_obs({"ok": got}, {"ok": lo}, keys=("dims", "shape", "axes", "values", "attrs"))
                    bad += d
            else:
                if "ok" in io:
                    bad.append("outcome")
                elif io["err"] != lean["err"]:
                    bad.append("M.errclass")
            if "ok" in io and c["axis"] != "default" and c["axis"][0] == "many":
                # a tuple of dimensions: the listed dimensions grouped (in the listed order) in front, accumulated along
                # the grouped dimension - straight from NumPy, independently of flatten
                got = io["ok"]
                listed = resolve_dims(c["axis"], list(a.dims))
                rest = [d for d in a.dims if d not in listed]
                perm = [a.dims.index(d) for d in listed + rest]
                v = vals.transpose(perm)
                v = v.reshape((-1,) + v.shape[len(listed):])
                with warnings.catch_warnings():
                    warnings.simplefilter("ignore")
                    want = scan(v, axis=0)
                if got["dims"] != [",".join(listed)] + rest:
                    prop_bad.append("dims:grouped")
                elif [fl(core_val(x)) for x in got["values"]] != [fl(x) for x in np.asarray(want, dtype=float).reshape(-1)]:
                    prop_bad.append("values:numpy")
                else:
                    in_axes = {x["name"]: x for x in io["input"]["axes"]}
                    for x in got["axes"][1:]:
                        if x["labels"] != in_axes[x["name"]]["labels"]:
                            prop_bad.append("axes.labels")
                        if x["attrs"] != in_axes[x["name"]]["attrs"]:
                            prop_bad.append("axes.attrs")
                if got["attrs"] != io["input"]["attrs"]:
                    prop_bad.append("attrs")
            elif "ok" in io:
                pos = (a.ndim - 1) if c["axis"] == "default" else (a.dims.index(c["axis"][1]) if c["axis"][0] == "name" else c["axis"][1] % a.ndim)
                got = io["ok"]
                with warnings.catch_warnings():
                    warnings.simplefilter("ignore")
                    if c["op"] == "cum":
                        want = scan(vals, axis=pos)
                        wl = [x["labels"] for x in io["input"]["axes"]]
                    else:
                        want = np.diff(vals, n=c["n"], axis=pos)
                        L = io["input"]["axes"][pos]["labels"]
                        n = c["n"]
                        if c["keepaxis"]:
                            padshape = list(want.shape); padshape[pos] = n
                            pad = np.full(padshape, np.nan)
                            want = np.concatenate([pad, want], axis=pos) if c["scheme"] == "backward" else np.concatenate([want, pad], axis=pos)
                            # padding is applied step by step: after the first step NaNs propagate
                            want = None
                            newl = L
                        elif c["scheme"] == "backward":
                            newl = L[n:]
                        elif c["scheme"] == "forward":
                            newl = L[:len(L) - n] if n <= len(L) else []
                        else:
                            cur = [Fraction(l[1], l[2]) for l in L] if all(l[0] == "n" for l in L) else None
                            if cur is not None:
                                for _ in range(n):
                                    cur = [(x + y) / 2 for x, y in zip(cur, cur[1:])]
                                newl = [["n", x.numerator, x.denominator] for x in cur]
                            else:
                                newl = None
                        wl = [x["labels"] for x in io["input"]["axes"]]
                        wl[pos] = newl
                if got["dims"] != io["input"]["dims"]:
                    prop_bad.append("dims")
                else:
                    for k, (x, w) in enumerate(zip(got["axes"], wl)):
                        if w is not None and x["labels"] != w:
                            prop_bad.append("axes.labels")
                        # "all axes unchanged" (cum), the other axes and the kept original axis (diff): metadata included;
                        # nothing is stated about the metadata of a shortened / relabelled axis
                        if (c["op"] == "cum" or k != pos or c["keepaxis"]) and x["attrs"] != io["input"]["axes"][k]["attrs"]:
                            prop_bad.append("axes.attrs")
                if want is not None and [fl(core_val(v)) for v in got["values"]] != [fl(v) for v in np.asarray(want, dtype=float).reshape(-1)]:
                    prop_bad.append("values:numpy")
                if c["op"] == "diff" and c["keepaxis"]:
                    # NaN padding on the matching side, n cells
                    v = np.array([core_val(x) for x in got["values"]], dtype=float).reshape(got["shape"]) if got["shape"] else None
                    if v is not None and v.shape[pos] >= c["n"]:
                        sl = [slice(None)] * v.ndim
                        sl[pos] = slice(0, c["n"]) if c["scheme"] == "backward" else slice(v.shape[pos] - c["n"], None)
                        if not np.all(np.isnan(v[tuple(sl)])):
                            prop_bad.append("values:nan_pad")
                        sl[pos] = slice(c["n"], None) if c["scheme"] == "backward" else slice(0, v.shape[pos] - c["n"])
                        inner = np.diff(vals.astype(float), n=c["n"], axis=pos)
                        if [fl(x) for x in v[tuple(sl)].reshape(-1)] != [fl(x) for x in inner.reshape(-1)]:
                            prop_bad.append("values:numpy")
                if got["attrs"] != io["input"]["attrs"]:
                    prop_bad.append("attrs")
            elif "ok" in lean:
                prop_bad.append("outcome:" + io["err"])
        if io.get("operand_modified"):
            prop_bad.append("operand_modified")
        if not bad and not prop_bad:
            return None
        return {"kind": "P" if prop_bad else "M", "differs": sorted(set(bad + prop_bad)), "msg": io.get("msg")}

    def nontrivial(self, c):
        return any(len(a["labels"]) > 1 for a in c["array"]["axes"])

    def features(self, c, io):
        ax = c["axis"]
        f = {"outcome": "err:" + io["err"] if "err" in io else "ok", "op": c["op"], "rank": len(c["array"]["axes"]),
             "vkind": c["array"]["vkind"], "nan": bool(c["array"].get("nan_at")),
             "axis": "none" if ax is None else ("default" if ax == "default" else ("tuple" if ax[0] == "many" else ax[0])),
             "axis_attrs": any(x.get("attrs_py") for x in c["array"]["axes"]), "modelled": self.modelled(c)}
        if ax not in (None, "default") and ax[0] == "many":
            kinds = {("name" if k[0] == "name" else ("neg" if k[1] < 0 else "pos")) for k in ax[1]}
            f["tuple_elems"] = "mixed" if len(kinds) > 1 else kinds.pop()
            f["tuple_len"] = "all" if len(ax[1]) == len(c["array"]["axes"]) else "some"
            f["tuple_as"] = "list" if len(ax) > 2 else "tuple"
        if c["op"] in ("cum", "arg"):
            sk = c.get("skipna")
            f["skipna"] = "default" if sk is None else (("pos:" if c.get("positional") else "kw:") + str(sk))
        if c["op"] == "cum":
            f["fn"] = c["fn"]
        if c["op"] == "diff":
            f.update({"scheme": c["scheme"], "keepaxis": c["keepaxis"], "n": c["n"]})
        if c["op"] == "arg":
            f.update({"fn": c["fn"], "whole": c["axis"] is None, "ties": c["array"].get("ties", False)})
            if c["array"].get("nan_at") and c["array"]["vkind"] == "f":
                a = self.build(c)
                red = resolve_dims(ax, list(a.dims))
                keep = [i for i, d in enumerate(a.dims) if red is not None and d not in red]
                m = np.isnan(a.values)
                m = m.transpose(keep + [i for i in range(a.ndim) if i not in keep]).reshape(int(np.prod([a.shape[i] for i in keep])) if keep else 1, -1)
                f["allnan_slice"] = bool(m.all(axis=1).any())
        return f

    def size(self, c):
        return sum(len(a["labels"]) for a in c["array"]["axes"]) + 5 * len(c["array"]["axes"])

    def snippet(self, c):
        return ("import sys; sys.path.insert(0, '/verif/harness'); import json, core; from props.c09 import PROP; "
                "case = json.load(open(REPLAY))['case']; print(PROP.impl(case))")


def core_val(v):
    if v[0] == "n":
        return float(Fraction(v[1], v[2]))
    if v[0] == "nan":
        return float("nan")
    if v[0] == "b":
        return float(v[1])
    if v[0] == "inf":
        return float("inf") if v[1] else float("-inf")
    return float("nan")


def same_label(x, y):
    if x == y:
        return True
    if x[0] == "n" and y[0] == "n":
        return Fraction(x[1], x[2]) == Fraction(y[1], y[2])
    return False


PROP = C09()

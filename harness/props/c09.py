"""C09 - cumulative, difference and arg-extremum operations keep axis bookkeeping right."""
import copy, itertools, math, warnings
from fractions import Fraction
import numpy as np
import core, gen
from core import da, Axis, DimArray
from .base import Prop
from .c08 import axis_py, nan_pattern
from .c06 import lab_key


def fl(v):
    v = float(v)
    return ["nan"] if math.isnan(v) else ["r", float("%.11e" % v)]


class C09(Prop):
    id = "C09"
    theorems = ["cum_axes_unchanged", "cum_prefix", "diff1_backward_labels", "diff1_forward_labels",
                "diff1_centered_labels", "diff1_keepaxis_labels", "diff1_values", "diff1_keepaxis_pad", "diff1_other_axes",
                "arg_labels", "diffAxis_iterate", "diffN_values", "diff2_values", "diffN_total", "diffN_labels", "diffN_empty",
                "diffN_keepaxis", "cum_last_eq_reduce", "arg_value_spec", "arg_whole_spec", "arg_label_dup_counterexample"]
    rule = ("numeric (float/int) arrays of rank 1-4 with sizes 1-5 along the operated axis, numeric sorted / unsorted and "
            "str labels; cumsum / cumprod (default and every axis by name / position); diff with n in {1,2,3}, the three "
            "schemes and both keepaxis settings; argmin / argmax over the whole array and along each axis, with ties and "
            "NaNs, checked also by indexing back. Non-trivial = operated axis longer than 1; distinct = canonical JSON")
    assumptions = ["np.cumsum / np.diff / np.argmin on a 1-D fibre are NumPy's"]

    def mirrors(self):
        import sys as _s
        t = _s.modules["dimarray.core.transform"]
        return {"cumsum": t.cumsum, "cumprod": t.cumprod, "diff": t.diff, "_append_nans": t._append_nans,
                "argmin": t.argmin, "argmax": t.argmax, "apply_along_axis": t.apply_along_axis}

    def gen(self, rng, tier):
        n = 1000 if tier == "quick" else 25000
        for _ in range(n):
            rank = rng.choice([1, 1, 2, 2, 3, 4])
            arr = gen.rand_array(rng, rank=rank, maxn=3, minn=1)
            d = rng.randrange(rank)
            # the operated axis: 1-5 labels
            kind = rng.choice(["i", "f", "O", "i"])
            arr["axes"][d] = gen.rand_axis(rng, arr["axes"][d]["name"], kind=kind, n=rng.randint(1, 5))
            arr["vkind"] = rng.choice(["f", "f", "i"])
            shape = [len(a["labels"]) for a in arr["axes"]]
            if rng.random() < 0.4:
                arr["attrs_py"] = {"units": "m"}
            names = [a["name"] for a in arr["axes"]]
            ax = rng.choice([["name", names[d]], ["pos", d], ["pos", d - rank]])
            gen.dtype_variants(rng, arr)      # unsigned / narrow label dtypes, float32 / int32 values, Fortran order
            r = rng.random()
            if r < 0.25:
                axc = ax if rng.random() < 0.8 else "default"
                if rank >= 2 and rng.random() < 0.25:
                    # a tuple of dimensions in any order: accumulated along the grouped dimension, in the listed order
                    axc = ["many", [["name", x] for x in rng.sample(names, 2)]]
                yield {"op": "cum", "array": arr, "fn": rng.choice(["cumsum", "cumprod"]), "axis": axc}
            elif r < 0.65:
                yield {"op": "diff", "array": arr, "axis": ax if rng.random() < 0.85 else "default", "n": rng.choice([1, 1, 2, 3]),
                       "scheme": rng.choice(["backward", "forward", "centered"]), "keepaxis": rng.random() < 0.4}
            else:
                if arr["vkind"] == "f":
                    arr["nan_at"] = nan_pattern(rng, shape, rng.choice(["none", "none", "some"]))
                # ties: duplicate some values
                arr["ties"] = rng.random() < 0.4
                yield {"op": "arg", "array": arr, "fn": rng.choice(["argmin", "argmax"]),
                       "axis": ax if rng.random() < 0.75 else None}

    def build(self, c):
        a = core.build_array(c["array"], 0)
        if c["array"].get("ties"):
            v = a.values.copy()
            flat = v.reshape(-1)
            for i in range(0, flat.size - 1, 2):
                if not (flat.dtype.kind == "f" and (math.isnan(flat[i]) or math.isnan(flat[i + 1]))):
                    flat[i + 1] = flat[i]
            v2 = flat.reshape(v.shape)
            if c["array"].get("order") == "F" and v2.ndim >= 2:
                v2 = np.asfortranarray(v2)
            a = DimArray(v2, axes=[ax.copy() for ax in a.axes])
            a.attrs.update(core.build_array(c["array"], 0).attrs)
        return a

    def impl(self, c):
        toks = core.AttrTokens()
        a = self.build(c)
        before = core.obs_array(a, toks)

        def run():
            with warnings.catch_warnings():
                warnings.simplefilter("ignore")
                with np.errstate(all="ignore"):
                    if c["op"] == "cum":
                        r = getattr(a, c["fn"])() if c["axis"] == "default" else getattr(a, c["fn"])(axis=axis_py(c["axis"]))
                    elif c["op"] == "diff":
                        kw = {"n": c["n"], "scheme": c["scheme"], "keepaxis": c["keepaxis"]}
                        r = a.diff(**kw) if c["axis"] == "default" else a.diff(axis=axis_py(c["axis"]), **kw)
                    else:
                        r = getattr(a, c["fn"])(axis=axis_py(c["axis"]))
                        if c["axis"] is None:
                            # tuple of labels: index back
                            val = a[r] if a.ndim > 1 else a[r[0]]
                            return {"tuple": [core.enc_label(x if not isinstance(x, np.generic) else x.item()) for x in r],
                                    "at": core.canon_value(val), "scalar": True, "dims": [], "axes": [], "shape": [], "values": [], "attrs": None, "vkind": "O"}
            return core.obs_array(r, toks)
        out = core.guarded(run)
        out["input"] = before
        if core.obs_array(a, toks) != before:
            out["operand_modified"] = True
        return out

    def request(self, c):
        toks = core.AttrTokens()
        arr = core.lean_array(gen.clean(c["array"]), toks)
        rank = len(c["array"]["axes"])
        ax = c["axis"]
        if ax == "default":
            ax = ["pos", -1]
        if c["op"] == "cum":
            return {"op": "transform", "fn": "cum", "arrays": [arr], "axis": ax}
        if c["op"] == "diff":
            return {"op": "transform", "fn": "diff", "arrays": [arr], "axis": ax, "scheme": c["scheme"], "keepaxis": c["keepaxis"], "n": c["n"]}
        return {"op": "transform", "fn": "arg", "arrays": [arr], "axis": ax if ax is not None else ["pos", 0]}

    def judge(self, c, io, ans):
        lean = ans["lib"]
        bad, prop_bad = [], []
        a = self.build(c)
        vals = a.values
        if c["op"] == "arg":
            argf = np.argmin if c["fn"] == "argmin" else np.argmax
            ext = np.min if c["fn"] == "argmin" else np.max
            if c["axis"] is None:
                # whole array: returned labels index back to the extremum
                if "ok" in io:
                    with warnings.catch_warnings():
                        warnings.simplefilter("ignore")
                        want = ext(vals)
                    if io["ok"]["at"] != core.canon_value(want.item() if isinstance(want, np.generic) else want):
                        prop_bad.append("values:index_back")
                    pos = np.unravel_index(argf(vals), vals.shape)
                    wl = [core.enc_label(ax.values[p].item() if isinstance(ax.values[p], np.generic) else ax.values[p]) for ax, p in zip(a.axes, pos)]
                    if io["ok"]["tuple"] != wl:
                        prop_bad.append("axes.labels:arg")
                else:
                    prop_bad.append("outcome:" + io["err"])
                return None if not prop_bad else {"kind": "P", "differs": prop_bad, "msg": io.get("msg")}

            class Env(core.CellEnv):
                def ev(self, cell):
                    if cell[0] == "arg":
                        fib = np.array([self.ev(x) for x in cell[1]], dtype=float)
                        with warnings.catch_warnings():
                            warnings.simplefilter("ignore")
                            p = int(argf(fib))
                        return core.dec_label(cell[2][p])
                    return core.CellEnv.ev(self, cell)
            env = Env([vals])
            if "ok" in lean:
                lo = lean["ok"]
                if "scalar" in lo:
                    lv = [core.canon_value(env.ev(lo["scalar"]))]; ldims = []; laxes = []
                else:
                    lv = [core.canon_value(env.ev(x)) for x in lo["cells"]]; ldims = lo["dims"]; laxes = lo["axes"]
                if "err" in io:
                    bad.append("outcome")
                else:
                    if io["ok"]["dims"] != ldims:
                        bad.append("dims")
                    if [same_label(x, y) for x, y in zip(io["ok"]["values"], lv)].count(False) or len(lv) != len(io["ok"]["values"]):
                        bad.append("values")
            elif "ok" in io:
                bad.append("outcome")
            if "ok" in io:
                # indexing the array with the returned labels yields its extremum along the axis
                pos = a.dims.index(c["axis"][1]) if c["axis"][0] == "name" else c["axis"][1] % a.ndim
                with warnings.catch_warnings():
                    warnings.simplefilter("ignore")
                    wantpos = argf(vals, axis=pos)
                labs = a.axes[pos].values
                want = [core.canon_value(x.item() if isinstance(x, np.generic) else x) for x in np.asarray(labs[wantpos], dtype=object).reshape(-1)]
                if [same_label(x, y) for x, y in zip(io["ok"]["values"], want)].count(False) or len(want) != len(io["ok"]["values"]):
                    prop_bad.append("values:labels_of_extremum")
                keep = [d for i, d in enumerate(a.dims) if i != pos]
                if io["ok"]["dims"] != keep:
                    prop_bad.append("dims:remaining")
            elif "ok" in lean:
                prop_bad.append("outcome:" + io["err"])
        else:
            scan = np.cumsum if c.get("fn") == "cumsum" else np.cumprod
            env = core.CellEnv([vals], scan=scan)
            if "ok" in lean:
                lo = core.lean_obs_to_canon(lean["ok"], env)
                lo["values"] = [fl(env.ev(x)) for x in lean["ok"]["cells"]]
                if "err" in io:
                    bad.append("outcome")
                else:
                    got = dict(io["ok"]); got["values"] = [fl(core_val(v)) for v in io["ok"]["values"]]
                    d = core.diff_obs({"ok": got}, {"ok": lo}, keys=("dims", "shape", "axes", "values", "attrs"))
                    bad += d
            else:
                if "ok" in io:
                    bad.append("outcome")
                elif io["err"] != lean["err"]:
                    bad.append("M.errclass")
            if "ok" in io and c["axis"] != "default" and c["axis"][0] == "many":
                # a tuple of dimensions: the listed dimensions grouped (in the listed order) in front, accumulated along
                # the grouped dimension - straight from NumPy, independently of flatten
                got = io["ok"]
                listed = [k[1] for k in c["axis"][1]]
                rest = [d for d in a.dims if d not in listed]
                perm = [a.dims.index(d) for d in listed + rest]
                v = vals.transpose(perm)
                v = v.reshape((-1,) + v.shape[len(listed):])
                with warnings.catch_warnings():
                    warnings.simplefilter("ignore")
                    want = scan(v, axis=0)
                if got["dims"] != [",".join(listed)] + rest:
                    prop_bad.append("dims:grouped")
                elif [fl(core_val(x)) for x in got["values"]] != [fl(x) for x in np.asarray(want, dtype=float).reshape(-1)]:
                    prop_bad.append("values:numpy")
                if got["attrs"] != io["input"]["attrs"]:
                    prop_bad.append("attrs")
            elif "ok" in io:
                pos = (a.ndim - 1) if c["axis"] == "default" else (a.dims.index(c["axis"][1]) if c["axis"][0] == "name" else c["axis"][1] % a.ndim)
                got = io["ok"]
                with warnings.catch_warnings():
                    warnings.simplefilter("ignore")
                    if c["op"] == "cum":
                        want = scan(vals, axis=pos)
                        wl = [x["labels"] for x in io["input"]["axes"]]
                    else:
                        want = np.diff(vals, n=c["n"], axis=pos)
                        L = io["input"]["axes"][pos]["labels"]
                        n = c["n"]
                        if c["keepaxis"]:
                            padshape = list(want.shape); padshape[pos] = n
                            pad = np.full(padshape, np.nan)
                            want = np.concatenate([pad, want], axis=pos) if c["scheme"] == "backward" else np.concatenate([want, pad], axis=pos)
                            # padding is applied step by step: after the first step NaNs propagate
                            want = None
                            newl = L
                        elif c["scheme"] == "backward":
                            newl = L[n:]
                        elif c["scheme"] == "forward":
                            newl = L[:len(L) - n] if n <= len(L) else []
                        else:
                            cur = [Fraction(l[1], l[2]) for l in L] if all(l[0] == "n" for l in L) else None
                            if cur is not None:
                                for _ in range(n):
                                    cur = [(x + y) / 2 for x, y in zip(cur, cur[1:])]
                                newl = [["n", x.numerator, x.denominator] for x in cur]
                            else:
                                newl = None
                        wl = [x["labels"] for x in io["input"]["axes"]]
                        wl[pos] = newl
                if got["dims"] != io["input"]["dims"]:
                    prop_bad.append("dims")
                else:
                    for k, (x, w) in enumerate(zip(got["axes"], wl)):
                        if w is not None and x["labels"] != w:
                            prop_bad.append("axes.labels")
                if want is not None and [fl(core_val(v)) for v in got["values"]] != [fl(v) for v in np.asarray(want, dtype=float).reshape(-1)]:
                    prop_bad.append("values:numpy")
                if c["op"] == "diff" and c["keepaxis"]:
                    # NaN padding on the matching side, n cells
                    v = np.array([core_val(x) for x in got["values"]], dtype=float).reshape(got["shape"]) if got["shape"] else None
                    if v is not None and v.shape[pos] >= c["n"]:
                        sl = [slice(None)] * v.ndim
                        sl[pos] = slice(0, c["n"]) if c["scheme"] == "backward" else slice(v.shape[pos] - c["n"], None)
                        if not np.all(np.isnan(v[tuple(sl)])):
                            prop_bad.append("values:nan_pad")
                        sl[pos] = slice(c["n"], None) if c["scheme"] == "backward" else slice(0, v.shape[pos] - c["n"])
                        inner = np.diff(vals.astype(float), n=c["n"], axis=pos)
                        if [fl(x) for x in v[tuple(sl)].reshape(-1)] != [fl(x) for x in inner.reshape(-1)]:
                            prop_bad.append("values:numpy")
                if got["attrs"] != io["input"]["attrs"]:
                    prop_bad.append("attrs")
            elif "ok" in lean:
                prop_bad.append("outcome:" + io["err"])
        if io.get("operand_modified"):
            prop_bad.append("operand_modified")
        if not bad and not prop_bad:
            return None
        return {"kind": "P" if prop_bad else "M", "differs": sorted(set(bad + prop_bad)), "msg": io.get("msg")}

    def nontrivial(self, c):
        return any(len(a["labels"]) > 1 for a in c["array"]["axes"])

    def features(self, c, io):
        f = {"outcome": "err:" + io["err"] if "err" in io else "ok", "op": c["op"], "rank": len(c["array"]["axes"]),
             "vkind": c["array"]["vkind"]}
        if c["op"] == "diff":
            f.update({"scheme": c["scheme"], "keepaxis": c["keepaxis"], "n": c["n"]})
        if c["op"] == "arg":
            f.update({"fn": c["fn"], "whole": c["axis"] is None, "ties": c["array"].get("ties", False), "nan": bool(c["array"].get("nan_at"))})
        return f

    def size(self, c):
        return sum(len(a["labels"]) for a in c["array"]["axes"]) + 5 * len(c["array"]["axes"])

    def snippet(self, c):
        return ("import sys; sys.path.insert(0, '/verif/harness'); import json, core; from props.c09 import PROP; "
                "case = json.load(open(REPLAY))['case']; print(PROP.impl(case))")


def core_val(v):
    if v[0] == "n":
        return float(Fraction(v[1], v[2]))
    if v[0] == "nan":
        return float("nan")
    if v[0] == "b":
        return float(v[1])
    if v[0] == "inf":
        return float("inf") if v[1] else float("-inf")
    return float("nan")


def same_label(x, y):
    if x == y:
        return True
    if x[0] == "n" and y[0] == "n":
        return Fraction(x[1], x[2]) == Fraction(y[1], y[2])
    return False


PROP = C09()

"""C05, stratum `cache`: histories of public operations on real `Axis` objects (plain, or reached through
`a.axes[0]` of a DimArray), compared after EVERY step with the Lean state machine `AxisCache.step`
(lean/DimModel/Lib/AxisCache.lean): result of the operation, and for every live object its labels, dtype kind and
the private `_monotonic` attribute (None / True / False).

Independently of the model, every step is judged against the property itself (class P): the cached flag of every live
object is unset or equal to what `indexing.is_monotonic` computes on its labels, and `is_monotonic()` / `union` /
`intersection` answer like freshly constructed axes with the same labels.

References to objects inside a case are reduced modulo the number of live objects when the step runs (the Lean driver
does the same)."""
import itertools
import numpy as np
import core, gen
from core import Axis, DimArray
from dimarray.core import indexing as _ix

# F71 (repaired in /repo, 6fe40cf): `Axis.cast(dtype)` with the dtype the axis already has returned an Axis that SHARED the
# label array (np.asarray makes no copy): an in-place change of one (`sort`, `ax[k] = v`) silently relabelled the other and
# left its cached `_monotonic` stale.  While it was open `cast` was generated to another kind only (flag True); the stratum
# is on now and the minimised history runs first (gen_regressions).
SKIP_CAST_SAME_KIND_SHARES_LABELS = False
NUM_U = [0, 1, 2, 3, 4]
STR_U = ["a", "b", "c", "d", "e"]


def _enc_list(vals):
    return [gen.enc(v) for v in vals]


def _labels(rng, fam, n=None):
    n = rng.randint(0, 4) if n is None else n
    shape = rng.choice(["inc", "dec", "rand", "rand", "dup"])
    if fam == "O":
        u = STR_U
    elif fam == "f":
        u = [x + rng.choice([0.0, 0.5]) for x in NUM_U]
    else:
        u = NUM_U
    if shape == "dup":
        vals = [rng.choice(u) for _ in range(n)]
    else:
        vals = rng.sample(u, n)
        if shape == "inc":
            vals.sort()
        elif shape == "dec":
            vals.sort(reverse=True)
    return _enc_list(vals)


def _value(rng, fam):
    """a scalar for `ax[pos] = v` and the kind NumPy gives it"""
    if fam == "O":
        return gen.enc(rng.choice(STR_U)), "U"
    if rng.random() < 0.3:
        return gen.enc(rng.choice(NUM_U) + 0.5), "f"
    return gen.enc(rng.choice(NUM_U)), "i"


def _oi(rng):
    return rng.choice([None, None, 0, 1, 2, 3, -1, -2, 5, -6])


def gen_random(rng, tier):
    fam = rng.choice(["i", "i", "f", "O"])          # one label family per history (numbers / strings are never mixed)
    numk = lambda: rng.choice(["i", "f", "i"]) if fam == "i" else fam     # integral labels may sit in a float array
    ops = [["construct", _labels(rng, fam), numk()]]
    if rng.random() < 0.6:
        ops.append(["construct", _labels(rng, fam), numk()])
    r = lambda: rng.randrange(12)
    for _ in range(rng.randint(2, 10 if tier == "quick" else 14)):
        t = rng.choice(["is_monotonic"] * 4 + ["get_slice"] * 4 + ["set_item"] * 2 + ["union"] * 3 + ["sort", "sort", "copy", "copy",
                        "set_values", "set_all", "get_list", "get_scalar", "take", "cast", "intersection", "construct", "labels"])
        if t == "construct":
            ops.append(["construct", _labels(rng, fam), numk()])
        elif t in ("is_monotonic", "copy", "sort", "labels"):
            ops.append([t, r()])
        elif t == "get_slice":
            st = rng.choice([None, None, 1, -1, 2, -2, 3, 0])
            ops.append([t, r(), _oi(rng), _oi(rng), st])
        elif t == "set_item":
            v, vk = _value(rng, fam)
            ops.append([t, r(), rng.choice([0, 1, 2, -1, -2, 3, 7, -7]), v, vk])
        elif t in ("set_values", "set_all"):
            ops.append([t, r(), _labels(rng, fam), numk()])
        elif t in ("get_list", "take"):
            ops.append([t, r(), [rng.choice([0, 1, 2, 3, -1, -2, 6]) for _ in range(rng.randint(0, 3))]])
        elif t == "get_scalar":
            ops.append([t, r(), rng.choice([0, 1, 2, -1, 5])])
        elif t == "cast":
            if SKIP_CAST_SAME_KIND_SHARES_LABELS:
                if fam != "O":      # only where the kind of the operand is known: right after its construction
                    k = numk()
                    ops.append(["construct", _labels(rng, fam), k])
                    ops.append([t, -1, rng.choice([x for x in ("i", "f", "O") if x != k and not (x == "i" and fam == "f")])])
            else:
                ops.append([t, r(), "O" if fam == "O" else rng.choice(["f", "O"])])
        else:
            ops.append([t, r(), r()])
    return {"op": "cache", "ops": ops, "via": rng.choice(["axis", "axis", "dimarray"]), "theme": "random"}


STARTS = [([1, 2, 3], "i"), ([2, 1, 2], "i"), ([3, 2, 1], "i"), ([1, 1], "i"), ([2], "i"), ([], "i"), ([0.5, 1.5, 3.0], "f"),
          (["a", "b", "c"], "O"), (["b", "a", "b"], "O")]
OTHER = {"i": ([2, 3, 5], "i"), "f": ([2, 3, 5], "i"), "O": (["b", "c", "e"], "O")}


def alphabet(fam):
    dup = gen.enc("b") if fam == "O" else gen.enc(2)
    dk = "U" if fam == "O" else "i"
    oob = [gen.enc("z"), "U"] if fam == "O" else [gen.enc(1.5), "f"]
    return [["is_monotonic", 0], ["sort", 0], ["copy", 0], ["get_slice", 0, None, None, None], ["get_slice", 0, None, None, -1],
            ["get_slice", 0, 1, None, None], ["get_slice", 0, None, None, 2], ["set_item", 0, 0, dup, dk], ["set_item", 0, 9] + oob,
            ["union", 0, 1], ["union", 1, 0], ["is_monotonic", -1], ["get_slice", -1, None, None, -1], ["union", -1, 1],
            ["set_item", -1, -1, dup, dk], ["get_list", 0, [0, 1]], ["intersection", 0, 1]]


def gen_exhaustive(tier):
    """every sequence of 2 (quick) / 3 (thorough) operations of a small alphabet (a reference -1 is the newest object),
    from every start, followed by is_monotonic() of every object"""
    depth = 2 if tier == "quick" else 3
    for (L, k) in STARTS:
        fam = "O" if k == "O" else k
        o = OTHER[k]
        pre = [["construct", _enc_list(L), k], ["construct", _enc_list(o[0]), o[1]]]
        for seq in itertools.product(alphabet(fam), repeat=depth):
            yield {"op": "cache", "ops": pre + [list(s) for s in seq] + [["is_monotonic", -1], ["is_monotonic", 0], ["is_monotonic", 1]],
                   "via": "axis", "theme": "exhaustive"}


def gen_regressions():
    """minimised past failures (run first): F71 - cast to the kind the axis already has must not share the label array;
    F72 - a refused `ax[pos] = v` must leave labels, dtype and cached flag as they were"""
    big = [2 ** 53, 2 ** 53 + 1]
    for via in ("axis", "dimarray"):
        yield {"op": "cache", "via": via, "theme": "regression",
               "ops": [["construct", _enc_list([3.0, 1.0, 2.0]), "f"], ["is_monotonic", 0], ["cast", 0, "f"], ["sort", -1],
                       ["is_monotonic", 0], ["is_monotonic", -1]]}
        yield {"op": "cache", "via": via, "theme": "regression",
               "ops": [["construct", _enc_list(["c", "a", "b"]), "O"], ["is_monotonic", 0], ["cast", 0, "O"], ["set_item", -1, 0, gen.enc("0"), "U"],
                       ["is_monotonic", 0], ["is_monotonic", -1]]}
        for pos in (9, -9):
            yield {"op": "cache", "via": via, "theme": "regression",
                   "ops": [["construct", _enc_list(big), "i"], ["is_monotonic", 0], ["set_item", 0, pos, gen.enc(1.5), "f"],
                           ["is_monotonic", 0], ["get_slice", 0, None, None, None], ["copy", 0], ["is_monotonic", -1]]}
        yield {"op": "cache", "via": via, "theme": "regression",
               "ops": [["construct", _enc_list([1, 2, 3]), "i"], ["is_monotonic", 0], ["set_item", 0, 9, gen.enc(1.5), "f"],
                       ["is_monotonic", 0], ["set_item", 0, 0, gen.enc(7), "i"], ["is_monotonic", 0]]}


def gen_cache(rng, tier):
    quick = tier == "quick"
    for c in gen_regressions():
        yield c
    ex = list(gen_exhaustive(tier))
    if quick:
        ex = rng.sample(ex, 700)
    for c in ex:
        yield c
    for _ in range(500 if quick else 6000):
        yield gen_random(rng, tier)


# ---------------------------------------------------------------------------------------------- implementation side
def _mono(ax):
    m = ax._monotonic
    return None if m is None else bool(m)


def _state(objs):
    return [{"labels": [gen.enc(v) for v in ax.values.tolist()], "kind": ax.values.dtype.kind, "mono": _mono(ax)} for ax in objs]


def _fresh(ax):
    return Axis(ax.values.copy(), ax.name)


def _strict(ax):
    return bool(_ix.is_monotonic(ax.values.copy()))


def run_cache(c):
    objs, keep, out = [], [], []

    def ref(i):
        return i % len(objs)

    for st in c["ops"]:
        t = st[0]
        stale = []

        def body():
            if t == "construct":
                vals = core.label_array(st[1], st[2])
                if c.get("via") == "dimarray":
                    a = DimArray(np.zeros(len(vals)), axes=[vals], dims=["x"])
                    keep.append(a)
                    return a.axes[0]
                return Axis(vals, "x")
            ax = objs[ref(st[1])]
            if t == "set_values":
                ax.values = core.label_array(st[2], st[3])
                return None
            if t == "set_item":
                ax[st[2]] = core.dec_label(st[3], {"U": "O"}.get(st[4], st[4]))
                return None
            if t == "set_all":
                ax[:] = core.label_array(st[2], st[3])
                return None
            if t == "get_slice":
                return ax[slice(st[2], st[3], st[4])]
            if t == "get_list":
                return ax[np.array(st[2], dtype=int)]
            if t == "get_scalar":
                return ("label", ax[st[2]])
            if t == "take":
                return ax.take(np.array(st[2], dtype=int))
            if t == "is_monotonic":
                want = _strict(ax)
                got = bool(ax.is_monotonic())
                if got != want:
                    stale.append("is_monotonic")
                return got
            if t == "copy":
                return ax.copy()
            if t == "sort":
                ax.sort()
                return None
            if t == "cast":
                return ax.cast({"f": float, "O": object, "i": int}[st[2]])
            if t in ("union", "intersection"):
                other = objs[ref(st[2])]
                try:
                    want = getattr(_fresh(ax), t)(_fresh(other)).values.tolist()
                except Exception as e:  # noqa
                    want = "err:" + core.exc_class(e)
                try:
                    r = getattr(ax, t)(other)
                    if r.values.tolist() != want:
                        stale.append(t)
                except Exception as e:  # noqa
                    if want != "err:" + core.exc_class(e):
                        stale.append(t)
                    raise
                return r
            if t == "labels":
                return ("labels", ax.values)
            raise ValueError(t)

        try:
            r = body()
            if r is None:
                res = {"unit": None}
            elif isinstance(r, bool):
                res = {"bool": r}
            elif isinstance(r, tuple) and r[0] == "label":
                res = {"label": gen.enc(r[1].item() if hasattr(r[1], "item") else r[1])}
            elif isinstance(r, tuple):
                res = {"labels": [gen.enc(v) for v in r[1].tolist()], "kind": r[1].dtype.kind}
            elif isinstance(r, Axis):
                k = [n for n, o in enumerate(objs) if o is r]
                if k:
                    res = {"ref": k[0]}
                else:
                    objs.append(r)
                    res = {"ref": len(objs) - 1}
            else:
                res = {"unknown": repr(r)}
        except Exception as e:  # noqa
            res = {"err": core.exc_class(e), "msg": "%s: %s" % (type(e).__name__, str(e)[:120])}
        incoherent = [n for n, ax in enumerate(objs) if _mono(ax) is not None and _mono(ax) != _strict(ax)]
        out.append({"res": res, "state": _state(objs), "stale": stale, "incoherent": incoherent})
    return {"ok": out}


def request_cache(c):
    return {"op": "axis_cache", "ops": c["ops"]}


def judge_cache(c, io, ans):
    if "err" in io:
        return {"kind": "M", "differs": ["outcome:" + io["err"]], "msg": io.get("msg")}
    bad, detail = [], {}
    for n, (o, l) in enumerate(zip(io["ok"], ans["lib"])):
        here = []
        if o["incoherent"]:
            here.append("P.stale_cached_flag")
        for q in o["stale"]:
            here.append("P.history_dependent:" + q)
        ro = {k: v for k, v in o["res"].items() if k != "msg"}
        if ro != l["res"]:
            here.append("result")
        so, sl = o["state"], l["state"]
        if len(so) != len(sl):
            here.append("objects")
        else:
            for k in ("labels", "kind", "mono"):
                if [x[k] for x in so] != [x[k] for x in sl]:
                    here.append("state." + k)
        if here:
            bad += here
            detail.setdefault("first", {"step": n, "op": c["ops"][n], "impl": o, "lean": l})
    if not bad:
        return None
    p = [b for b in bad if b.startswith("P.")]
    return {"kind": "P" if p else "M", "differs": sorted(set(bad)), "detail": detail}


def features_cache(c, io):
    f = {"op": "cache", "via": c.get("via"), "theme": c.get("theme"), "nsteps": len(c["ops"])}
    if "ok" in io:
        for st, o in zip(c["ops"], io["ok"]):
            f["cache:" + st[0] + (":err" if "err" in o["res"] else "")] = 1
            if st[0] == "get_slice" and "ref" in o["res"]:
                f["cache:slice_flag:%s" % o["state"][o["res"]["ref"]]["mono"]] = 1
            for x in o["state"]:
                f["cache:flag:%s" % x["mono"]] = 1
    return f

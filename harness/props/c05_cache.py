"""C05, stratum `cache`: histories of public operations on real `Axis` objects (plain, or reached through
`a.axes[0]` of a DimArray), compared after EVERY step with the Lean state machine `AxisCache.step`
(lean/DimModel/Lib/AxisCache.lean): result of the operation, and for every live object its labels, dtype kind and
the private `_monotonic` attribute (None / True / False).

Independently of the model, every step is judged against the property itself (class P): the cached flag of every live
object is unset or equal to what `indexing.is_monotonic` computes on its labels, and `is_monotonic()` / `union` /
`intersection` answer like freshly constructed axes with the same labels.

References to objects inside a case are reduced modulo the number of live objects when the step runs (the Lean driver
does the same)."""
import itertools
import numpy as np
import core, gen
from core import Axis, DimArray
from dimarray.core import indexing as _ix

# F71 (repaired in /repo, 6fe40cf): `Axis.cast(dtype)` with the dtype the axis already has returned an Axis that SHARED the
# label array (np.asarray makes no copy): an in-place change of one (`sort`, `ax[k] = v`) silently relabelled the other and
# left its cached `_monotonic` stale.  While it was open `cast` was generated to another kind only (flag True); the stratum
# is on now and the minimised history runs first (gen_regressions).
SKIP_CAST_SAME_KIND_SHARES_LABELS = False
NUM_U = [0, 1, 2, 3, 4]
STR_U = ["a", "b", "c", "d", "e"]


def _enc_list(vals):
    return [gen.enc(v) for v in vals]


def _labels(rng, fam, n=None):
    n = rng.randint(0, 4) if n is None else n
    shape = rng.choice(["inc", "dec", "rand", "rand", "dup"])
    if fam == "O":
        u = STR_U
    elif fam == "f":
        u = [x + rng.choice([0.0, 0.5]) for x in NUM_U]
    else:
        u = NUM_U
    if shape == "dup":
        vals = [rng.choice(u) for _ in range(n)]
    else:
        vals = rng.sample(u, n)
        if shape == "inc":
            vals.sort()
        elif shape == "dec":
            vals.sort(reverse=True)
    return _enc_list(vals)


def _value(rng, fam):
    """a scalar for `ax[pos] = v` and the kind NumPy gives it"""
    if fam == "O":
        return gen.enc(rng.choice(STR_U)), "U"
    if rng.random() < 0.3:
        return gen.enc(rng.choice(NUM_U) + 0.5), "f"
    return gen.enc(rng.choice(NUM_U)), "i"


def _oi(rng):
    return rng.choice([None, None, 0, 1, 2, 3, -1, -2, 5, -6])


def gen_random(rng, tier):
    fam = rng.choice(["i", "i", "f", "O"])          # one label family per history (numbers / strings are never mixed)
    numk = lambda: rng.choice(["i", "f", "i"]) if fam == "i" else fam     # integral labels may sit in a float array
    ops = [["construct", _labels(rng, fam), numk()]]
    if rng.random() < 0.6:
        ops.append(["construct", _labels(rng, fam), numk()])
    r = lambda: rng.randrange(12)
    for _ in range(rng.randint(2, 10 if tier == "quick" else 14)):
        t = rng.choice(["is_monotonic"] * 4 + ["get_slice"] * 4 + ["set_item"] * 2 + ["union"] * 3 + ["sort", "sort", "copy", "copy",
                        "set_values", "set_all", "get_list", "get_scalar", "take", "cast", "intersection", "construct", "labels"])
        if t == "construct":
            ops.append(["construct", _labels(rng, fam), numk()])
        elif t in ("is_monotonic", "copy", "sort", "labels"):
            ops.append([t, r()])
        elif t == "get_slice":
            st = rng.choice([None, None, 1, -1, 2, -2, 3, 0])
            ops.append([t, r(), _oi(rng), _oi(rng), st])
        elif t == "set_item":
            v, vk = _value(rng, fam)
            ops.append([t, r(), rng.choice([0, 1, 2, -1, -2, 3, 7, -7]), v, vk])
        elif t in ("set_values", "set_all"):
            ops.append([t, r(), _labels(rng, fam), numk()])
        elif t in ("get_list", "take"):
            ops.append([t, r(), [rng.choice([0, 1, 2, 3, -1, -2, 6]) for _ in range(rng.randint(0, 3))]])
        elif t == "get_scalar":
            ops.append([t, r(), rng.choice([0, 1, 2, -1, 5])])
        elif t == "cast":
            if SKIP_CAST_SAME_KIND_SHARES_LABELS:
                if fam != "O":      # only where the kind of the operand is known: right after its construction
                    k = numk()
                    ops.append(["construct", _labels(rng, fam), k])
                    ops.append([t, -1, rng.choice([x for x in ("i", "f", "O") if x != k and not (x == "i" and fam == "f")])])
            else:
                ops.append([t, r(), "O" if fam == "O" else rng.choice(["f", "O"])])
        else:
            ops.append([t, r(), r()])
    return {"op": "cache", "ops": ops, "via": rng.choice(["axis", "axis", "dimarray"]), "theme": "random"}


STARTS = [([1, 2, 3], "i"), ([2, 1, 2], "i"), ([3, 2, 1], "i"), ([1, 1], "i"), ([2], "i"), ([], "i"), ([0.5, 1.5, 3.0], "f"),
          (["a", "b", "c"], "O"), (["b", "a", "b"], "O")]
OTHER = {"i": ([2, 3, 5], "i"), "f": ([2, 3, 5], "i"), "O": (["b", "c", "e"], "O")}


def alphabet(fam):
    dup = gen.enc("b") if fam == "O" else gen.enc(2)
    dk = "U" if fam == "O" else "i"
    oob = [gen.enc("z"), "U"] if fam == "O" else [gen.enc(1.5), "f"]
    return [["is_monotonic", 0], ["sort", 0], ["copy", 0], ["get_slice", 0, None, None, None], ["get_slice", 0, None, None, -1],
            ["get_slice", 0, 1, None, None], ["get_slice", 0, None, None, 2], ["set_item", 0, 0, dup, dk], ["set_item", 0, 9] + oob,
            ["union", 0, 1], ["union", 1, 0], ["is_monotonic", -1], ["get_slice", -1, None, None, -1], ["union", -1, 1],
            ["set_item", -1, -1, dup, dk], ["get_list", 0, [0, 1]], ["intersection", 0, 1]]


def gen_exhaustive(tier):
    """every sequence of 2 (quick) / 3 (thorough) operations of a small alphabet (a reference -1 is the newest object),
    from every start, followed by is_monotonic() of every object"""
    depth = 2 if tier == "quick" else 3
    for (L, k) in STARTS:
        fam = "O" if k == "O" else k
        o = OTHER[k]
        pre = [["construct", _enc_list(L), k], ["construct", _enc_list(o[0]), o[1]]]
        for seq in itertools.product(alphabet(fam), repeat=depth):
            yield {"op": "cache", "ops": pre + [list(s) for s in seq] + [["is_monotonic", -1], ["is_monotonic", 0], ["is_monotonic", 1]],
                   "via": "axis", "theme": "exhaustive"}


def gen_regressions():
    """minimised past failures (run first): F71 - cast to the kind the axis already has must not share the label array;
    F72 - a refused `ax[pos] = v` must leave labels, dtype and cached flag as they were"""
    big = [2 ** 53, 2 ** 53 + 1]
    for via in ("axis", "dimarray"):
        yield {"op": "cache", "via": via, "theme": "regression",
               "ops": [["construct", _enc_list([3.0, 1.0, 2.0]), "f"], ["is_monotonic", 0], ["cast", 0, "f"], ["sort", -1],
                       ["is_monotonic", 0], ["is_monotonic", -1]]}
        yield {"op": "cache", "via": via, "theme": "regression",
               "ops": [["construct", _enc_list(["c", "a", "b"]), "O"], ["is_monotonic", 0], ["cast", 0, "O"], ["set_item", -1, 0, gen.enc("0"), "U"],
                       ["is_monotonic", 0], ["is_monotonic", -1]]}
        for pos in (9, -9):
            yield {"op": "cache", "via": via, "theme": "regression",
                   "ops": [["construct", _enc_list(big), "i"], ["is_monotonic", 0], ["set_item", 0, pos, gen.enc(1.5), "f"],
                           ["is_monotonic", 0], ["get_slice", 0, None, None, None], ["copy", 0], ["is_monotonic", -1]]}
        yield {"op": "cache", "via": via, "theme": "regression",
               "ops": [["construct", _enc_list([1, 2, 3]), "i"], ["is_monotonic", 0], ["set_item", 0, 9, gen.enc(1.5), "f"],
                       ["is_monotonic", 0], ["set_item", 0, 0, gen.enc(7), "i"], ["is_monotonic", 0]]}


def gen_cache(rng, tier):
    quick = tier == "quick"
    for c in gen_regressions():
        yield c
    ex = list(gen_exhaustive(tier))
    if quick:
        ex = rng.sample(ex, 700)
    for c in ex:
        yield c
    for _ in range(500 if quick else 6000):
        yield gen_random(rng, tier)


# ---------------------------------------------------------------------------------------------- implementation side
def _mono(ax):
    m = ax._monotonic
    return None if m is None else bool(m)


def _state(objs):
    return [{"labels": [gen.enc(v) for v in ax.values.tolist()], "kind": ax.values.dtype.kind, "mono": _mono(ax)} for ax in objs]


def _fresh(ax):
    return Axis(ax.values.copy(), ax.name)


def _strict(ax):
    return bool(_ix.is_monotonic(ax.values.copy()))


def run_cache(c):
    objs, keep, out = [], [], []

    def ref(i):
        return i % len(objs)

    for st in c["ops"]:
        t = st[0]
        stale = []

        def body():
            if t == "construct":
                vals = core.label_array(st[1], st[2])
                if c.get("via") == "dimarray":
                    a = DimArray(np.zeros(len(vals)), axes=[vals], dims=["x"])
                    keep.append(a)
                    return a.axes[0]
                return Axis(vals, "x")
            ax = objs[ref(st[1])]
            if t == "set_values":
                ax.values = core.label_array(st[2], st[3])
                return None
            if t == "set_item":
                ax[st[2]] = core.dec_label(st[3], {"U": "O"}.get(st[4], st[4]))
                return None
            if t == "set_all":
                ax[:] = core.label_array(st[2], st[3])
                return None
            if t == "get_slice":
                return ax[slice(st[2], st[3], st[4])]
            if t == "get_list":
                return ax[np.array(st[2], dtype=int)]
            if t == "get_scalar":
                return ("label", ax[st[2]])
            if t == "take":
                return ax.take(np.array(st[2], dtype=int))
            if t == "is_monotonic":
                want = _strict(ax)
                got = bool(ax.is_monotonic())
                if got != want:
                    stale.append("is_monotonic")
                return got
            if t == "copy":
                return ax.copy()
            if t == "sort":
                ax.sort()
                return None
            if t == "cast":
                return ax.cast({"f": float, "O": object, "i": int}[st[2]])
            if t in ("union", "intersection"):
                other = objs[ref(st[2])]
                try:
                    want = getattr(_fresh(ax), t)(_fresh(other)).values.tolist()
                except Exception as e:  # noqa
                    want = "err:" + core.exc_class(e)
                try:
                    r = getattr(ax, t)(other)
                    if r.values.tolist() != want:
                        stale.append(t)
                except Exception as e:  # noqa
                    if want != "err:" + core.exc_class(e):
                        stale.append(t)
                    raise
                return r
            if t == "labels":
                return ("labels", ax.values)
            raise ValueError(t)

        try:
            r = body()
            if r is None:
                res = {"unit": None}
            elif isinstance(r, bool):
                res = {"bool": r}
            elif isinstance(r, tuple) and r[0] == "label":
                res = {"label": gen.enc(r[1].item() if hasattr(r[1], "item") else r[1])}
            elif isinstance(r, tuple):
                res = {"labels": [gen.enc(v) for v in r[1].tolist()], "kind": r[1].dtype.kind}
            elif isinstance(r, Axis):
                k = [n for n, o in enumerate(objs) if o is r]
                if k:
                    res = {"ref": k[0]}
                else:
                    objs.append(r)
                    res = {"ref": len(objs) - 1}
            else:
                res = {"unknown": repr(r)}
        except Exception as e:  # noqa
            res = {"err": core.exc_class(e), "msg": "%s: %s" % (type(e).__name__, str(e)[:120])}
        incoherent = [n for n, ax in enumerate(objs) if _mono(ax) is not None and _mono(ax) != _strict(ax)]
        out.append({"res": res, "state": _state(objs), "stale": stale, "incoherent": incoherent})
    return {"ok": out}


def request_cache(c):
    return {"op": "axis_cache", "ops": c["ops"]}


def judge_cache(c, io, ans):
    if "err" in io:
        return {"kind": "M", "differs": ["outcome:" + io["err"]], "msg": io.get("msg")}
    bad, detail = [], {}
    for n, (o, l) in enumerate(zip(io["ok"], ans["lib"])):
        here = []
        if o["incoherent"]:
            here.append("P.stale_cached_flag")
        for q in o["stale"]:
            here.append("P.history_dependent:" + q)
        ro = {k: v for k, v in o["res"].items() if k != "msg"}
        if ro != l["res"]:
            here.append("result")
        so, sl = o["state"], l["state"]
        if len(so) != len(sl):
            here.append("objects")
        else:
            for k in ("labels", "kind", "mono"):
                if [x[k] for x in so] != [x[k] for x in sl]:
                    here.append("state." + k)
        if here:
            bad += here
            detail.setdefault("first", {"step": n, "op": c["ops"][n], "impl": o, "lean": l})
    if not bad:
        return None
    p = [b for b in bad if b.startswith("P.")]
    return {"kind": "P" if p else "M", "differs": sorted(set(bad)), "detail": detail}


def features_cache(c, io):
    f = {"op": "cache", "via": c.get("via"), "theme": c.get("theme"), "nsteps": len(c["ops"])}
    if "ok" in io:
        for st, o in zip(c["ops"], io["ok"]):
            f["cache:" + st[0] + (":err" if "err" in o["res"] else "")] = 1
            if st[0] == "get_slice" and "ref" in o["res"]:
                f["cache:slice_flag:%s" % o["state"][o["res"]["ref"]]["mono"]] = 1
            for x in o["state"]:
                f["cache:flag:%s" % x["mono"]] = 1
    return f


# ================================================================================================ grouped axes (op "gcache")
"""Stratum `gcache`: histories on real `MultiAxis` objects - built directly (`MultiAxis(x, y)`: members by reference) or
through `DimArray(...).flatten(dims)` (members are copies) - compared after EVERY step with the Lean state machine
`GroupedCache.step` (lean/DimModel/Lib/GroupedCache.lean): result, labels / name of every plain axis, and for every
grouped axis its members (object identity -> index in the heap of plain axes), cached `_name`, `_values`, `_size`.
Class P (independent of the model): a cached field differs from what a fresh MultiAxis of the same members computes."""
from dimarray.core.axes import MultiAxis

# K09 (open known finding, known_findings.json): a MultiAxis keeps references to its members and caches tuple labels / joined
# name: relabelling or renaming a member (`b.axes[0].axes[0][0] = 9` on a flattened array, or the operand of a direct
# `MultiAxis(x, y)`) after the labels were read leaves the cache stale, and an accepted `g[pos] = t` rewrites the cached tuples
# only.  The histories generate these steps (flag False); the disagreements they cause are matched by `known_grouped` - a
# stale grouped cache in a history WITHOUT such a step is still a VIOLATION.  Lean: GroupedCache.Safe excludes exactly these
# steps; grouped_stale_after_member_relabel_counterexample, grouped_name_stale_after_member_rename_counterexample,
# grouped_setitem_incoherent_counterexample.
SKIP_GROUPED_MEMBER_MUTATION = False
# F73 (repaired in /repo, 3940402): `g.take(...)` / `g[pos] = t` read the private `_values`: AttributeError until `g.values`
# had been read once.  While it was open `take` followed a read and `set_item` was not generated (flag True).
SKIP_GROUPED_PRIVATE_VALUES = False


def known_grouped(c, mm):
    """K09: every class-P observable is a stale grouped cache (or unflatten disagreeing with it), and the history holds a step
    the finding names: a member relabelled / renamed, or an item assignment on the grouped axis"""
    if c.get("op") != "gcache":
        return False
    p = [d for d in mm.get("differs", []) if d.startswith("P.")]
    if not p or any(not (d.startswith("P.stale_grouped_cache:") or d == "P.unflatten_differs_from_members") for d in p):
        return False
    if any(not d.startswith("P.") for d in mm.get("differs", [])):
        return False            # the model disagrees as well: not the listed finding
    return any(o[0] in ("relabel_member", "rename_member", "set_item") for o in c["ops"])


def gen_grouped_hist(rng, tier):
    names, kinds, members, has_vals = [], [], [], []      # generator-side bookkeeping of the heap (all generated operations succeed)
    ops = []

    def mk():
        fam = rng.choice(["i", "i", "O"])
        n = rng.randint(1, 3)
        L = _enc_list(rng.sample(NUM_U if fam == "i" else STR_U, n))
        nm = "p%d" % len(names)
        ops.append(["mk_plain", L, nm, fam])
        names.append(nm)
        kinds.append(fam)

    for _ in range(rng.randint(2, 3)):
        mk()

    def pick_members():
        k = rng.randint(2, min(3, len(names)))
        for _ in range(20):
            ms = rng.sample(range(len(names)), k)
            if len({names[m] for m in ms}) == k:
                return ms
        return None

    def is_member(p):
        return any(p in m for m in members)

    for _ in range(rng.randint(3, 9 if tier == "quick" else 14)):
        t = rng.choice(["group", "flatten_from", "read_labels", "read_labels", "read_size", "read_name", "relabel_member", "relabel_member",
                        "rename_member", "slice", "slice", "take", "copy", "unflatten", "mk_plain", "set_item"])
        if not members and t not in ("group", "flatten_from", "mk_plain", "relabel_member", "rename_member"):
            t = rng.choice(["group", "flatten_from"])
        if t == "mk_plain":
            mk()
        elif t in ("group", "flatten_from"):
            ms = pick_members()
            if ms is None:
                continue
            ops.append([t, ms])
            if t == "group":
                members.append(ms)
            else:
                n = len(names)
                names.extend(names[m] for m in ms)
                kinds.extend(kinds[m] for m in ms)
                members.append(list(range(n, n + len(ms))))
            has_vals.append(False)
        elif t in ("relabel_member", "rename_member"):
            cand = [p for p in range(len(names)) if not (SKIP_GROUPED_MEMBER_MUTATION and is_member(p))]
            if not cand:
                continue
            p = rng.choice(cand)
            if t == "relabel_member":
                ops.append([t, p, rng.choice([0, 1, -1, 2, 5]), _new_label(kinds[p], len(ops))])
            else:
                nm = "r%d" % len(ops)
                ops.append([t, p, nm])
                names[p] = nm
        else:
            g = rng.randrange(len(members))
            if t in ("read_labels", "read_size", "read_name", "unflatten"):
                ops.append([t, g])
                if t == "read_labels":
                    has_vals[g] = True
            elif t == "slice":
                ops.append([t, g, _oi(rng), _oi(rng), rng.choice([None, None, 1, -1, 2, -2])])
                if ops[-1][2:] != [None, None, None]:
                    has_vals[g] = True
            elif t == "take":
                if SKIP_GROUPED_PRIVATE_VALUES and not has_vals[g]:
                    ops.append(["read_labels", g])
                    has_vals[g] = True
                ops.append([t, g, [rng.choice([0, 1, -1, 2]) for _ in range(rng.randint(0, 3))]])
            elif t == "set_item":
                if SKIP_GROUPED_PRIVATE_VALUES:
                    continue
                ops.append([t, g, rng.choice([0, 1, -1]), _enc_list([7, 7, 7][:len(members[g])])])
            elif t == "copy":
                ops.append([t, g])
                n = len(names)
                names.extend(names[m] for m in members[g])
                kinds.extend(kinds[m] for m in members[g])
                members.append(list(range(n, n + len(members[g]))))
                has_vals.append(has_vals[g])
    return {"op": "gcache", "ops": ops, "theme": "random"}


def gen_grouped_fixed():
    """deterministic histories: the safe neighbours of the two open defects (run in every tier), and - when the flags are
    lifted - the defects themselves"""
    pre = [["mk_plain", _enc_list([1, 2]), "x", "i"], ["mk_plain", _enc_list(["a", "b", "c"]), "y", "O"]]
    for make in ("group", "flatten_from"):
        src_safe = make == "flatten_from"       # after flatten the source axes (0, 1) are not members: relabelling them is safe
        yield {"op": "gcache", "theme": "fixed", "ops": pre + [[make, [0, 1]], ["read_size", 0], ["read_name", 0], ["read_labels", 0],
               ["slice", 0, None, None, -2], ["take", 0, [0, -1]], ["copy", 0], ["read_labels", 1], ["unflatten", 1]]}
        if src_safe or not SKIP_GROUPED_MEMBER_MUTATION:
            yield {"op": "gcache", "theme": "fixed", "ops": pre + [[make, [1, 0]], ["relabel_member", 0, 0, gen.enc(9)], ["rename_member", 1, "w"],
                   ["read_labels", 0], ["read_name", 0], ["unflatten", 0]]}
        if src_safe or not SKIP_GROUPED_MEMBER_MUTATION:
            yield {"op": "gcache", "theme": "fixed", "ops": pre + [[make, [0, 1]], ["read_labels", 0], ["relabel_member", 0, 0, gen.enc(9)],
                   ["rename_member", 1, "w"], ["read_labels", 0], ["read_name", 0], ["unflatten", 0]]}
        if not SKIP_GROUPED_MEMBER_MUTATION:
            m0 = 2 if make == "flatten_from" else 0
            yield {"op": "gcache", "theme": "fixed", "ops": pre + [[make, [0, 1]], ["read_labels", 0], ["relabel_member", m0, 0, gen.enc(9)],
                   ["read_labels", 0], ["unflatten", 0]]}
            yield {"op": "gcache", "theme": "fixed", "ops": pre + [[make, [0, 1]], ["rename_member", m0, "q"], ["read_name", 0], ["unflatten", 0]]}
        if not SKIP_GROUPED_PRIVATE_VALUES:
            yield {"op": "gcache", "theme": "fixed", "ops": pre + [[make, [0, 1]], ["take", 0, [0]], ["read_labels", 0], ["take", 0, [0]]]}
            yield {"op": "gcache", "theme": "fixed", "ops": pre + [[make, [0, 1]], ["set_item", 0, 0, _enc_list([7, 7])], ["read_labels", 0],
                   ["set_item", 0, 0, _enc_list([7, 7])], ["read_labels", 0], ["unflatten", 0]]}


def gen_grouped(rng, tier):
    for c in gen_grouped_fixed():
        yield c
    for _ in range(300 if tier == "quick" else 4000):
        yield gen_grouped_hist(rng, tier)


def _tuples(vals):
    return [[gen.enc(x.item() if hasattr(x, "item") else x) for x in t] for t in vals.tolist()]


def _new_label(kind, k):
    """a label of the axis' own kind that differs from every present one"""
    return gen.enc("z%d" % k if kind == "O" else 90 + k)


def run_grouped(c):
    plain, grouped, keep, out = [], [], [], []

    def pidx(ax):
        k = [n for n, o in enumerate(plain) if o is ax]
        return k[0] if k else None

    def add_grouped(g):
        for m in g.axes:
            if pidx(m) is None:
                plain.append(m)
        grouped.append(g)
        return {"gref": len(grouped) - 1}

    for n, st in enumerate(c["ops"]):
        t = st[0]
        st = list(st)

        def body():
            if t == "mk_plain":
                plain.append(Axis(core.label_array(st[1], st[3]), st[2]))
                return {"pref": len(plain) - 1}
            if t == "group":
                return add_grouped(MultiAxis(*[plain[m % len(plain)] for m in st[1]]))
            if t == "flatten_from":
                axs = [plain[m % len(plain)] for m in st[1]]
                a = DimArray(np.zeros([ax.size for ax in axs]), axes=axs)
                assert all(x is y for x, y in zip(a.axes, axs))      # the source array holds these very objects
                b = a.flatten(tuple(ax.name for ax in axs))
                keep.append((a, b))
                return add_grouped(b.axes[0])
            if t in ("relabel_member", "rename_member"):
                ax = plain[st[1] % len(plain)]
                if t == "rename_member":
                    ax.name = st[2]
                    return {"unit": None}
                ax[st[2]] = core.dec_label(st[3], "O" if ax.values.dtype.kind == "O" else "i")
                return {"unit": None}
            g = grouped[st[1] % len(grouped)]
            if t == "read_labels":
                return {"tuples": _tuples(g.values)}
            if t == "read_size":
                return {"nat": int(g.size)}
            if t == "read_name":
                return {"name": g.name}
            if t == "slice":
                r = g[slice(st[2], st[3], st[4])]
                if r is g:
                    return {"gref": st[1] % len(grouped)}
                assert type(r) is Axis and r.name == g.name
                return {"tuples": _tuples(r.values)}
            if t == "take":
                r = g.take(np.array(st[2], dtype=int))
                return {"tuples": _tuples(r.values)}
            if t == "set_item":
                g[st[2]] = tuple(core.dec_label(x, "i") for x in st[3])
                return {"unit": None}
            if t == "copy":
                return add_grouped(g.copy())
            if t == "unflatten":
                res = {"members": [{"labels": [gen.enc(v) for v in m.values.tolist()], "name": m.name} for m in g.axes]}
                for (a, b) in keep:                      # the owning array, when there is one, must agree
                    if b.axes[0] is g:
                        u = b.unflatten()
                        got = [{"labels": [gen.enc(v) for v in ax.values.tolist()], "name": ax.name} for ax in u.axes]
                        if got != res["members"]:
                            res["unflatten_differs"] = got
                return res
            raise ValueError(t)

        try:
            res = body()
        except Exception as e:  # noqa
            res = {"err": core.exc_class(e), "msg": "%s: %s" % (type(e).__name__, str(e)[:120])}
        stale = []
        for k, g in enumerate(grouped):
            f = MultiAxis(*list(g.axes))
            if g._values is not None and _tuples(g._values) != _tuples(f.values):
                stale.append("labels:%d" % k)
            if g._size is not None and int(g._size) != int(f.size):
                stale.append("size:%d" % k)
            if g.name != f.name:
                stale.append("name:%d" % k)
        out.append({"res": res, "stale": stale,
                    "plain": [{"labels": [gen.enc(v) for v in ax.values.tolist()], "name": ax.name} for ax in plain],
                    "grouped": [{"members": [pidx(m) for m in g.axes], "name": g._name,
                                 "vals": None if g._values is None else _tuples(g._values),
                                 "size": None if g._size is None else int(g._size)} for g in grouped]})
    return {"ok": out}


def request_grouped(c):
    ops = c["ops"]
    return {"op": "grouped_cache", "ops": [o[:3] if o[0] == "mk_plain" else o for o in ops]}


def judge_grouped(c, io, ans):
    if "err" in io:
        return {"kind": "M", "differs": ["outcome:" + io["err"]], "msg": io.get("msg")}
    bad, detail = [], {}
    for n, (o, l) in enumerate(zip(io["ok"], ans["lib"])):
        here = ["P.stale_grouped_cache:" + q.split(":")[0] for q in o["stale"]]
        if "unflatten_differs" in o["res"]:
            here.append("P.unflatten_differs_from_members")
        ro = {k: v for k, v in o["res"].items() if k not in ("msg", "unflatten_differs")}
        if ro != l["res"]:
            here.append("result")
        for k in ("plain", "grouped"):
            if o[k] != l[k]:
                here.append("state." + k)
        if bool(o["stale"]) == l["coherent"]:
            here.append("coherent_flag")
        if here:
            bad += here
            detail.setdefault("first", {"step": n, "op": c["ops"][n], "impl": o, "lean": l})
    if not bad:
        return None
    p = [b for b in bad if b.startswith("P.")]
    return {"kind": "P" if p else "M", "differs": sorted(set(bad)), "detail": detail}


def features_grouped(c, io):
    f = {"op": "gcache", "theme": c.get("theme"), "nsteps": len(c["ops"])}
    if "ok" in io:
        for st, o in zip(c["ops"], io["ok"]):
            f["gcache:" + st[0] + (":err" if "err" in o["res"] else "")] = 1
            for g in o["grouped"]:
                f["gcache:vals:%s" % (g["vals"] is not None)] = 1
                f["gcache:size:%s" % (g["size"] is not None)] = 1
        f["gcache:ngrouped"] = len(io["ok"][-1]["grouped"])
    return f


# ------------------------------------------------------------------------------------------------ dispatch for props/c05.py
OPS = ("cache", "gcache")
_run_cache, _request_cache, _judge_cache, _features_cache, _gen_cache = run_cache, request_cache, judge_cache, features_cache, gen_cache


def gen_cache(rng, tier):
    for c in _gen_cache(rng, tier):
        yield c
    for c in gen_grouped(rng, tier):
        yield c


def run_cache(c):
    return run_grouped(c) if c["op"] == "gcache" else _run_cache(c)


def request_cache(c):
    return request_grouped(c) if c["op"] == "gcache" else _request_cache(c)


def judge_cache(c, io, ans):
    return judge_grouped(c, io, ans) if c["op"] == "gcache" else _judge_cache(c, io, ans)


def features_cache(c, io):
    return features_grouped(c, io) if c["op"] == "gcache" else _features_cache(c, io)

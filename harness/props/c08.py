"""C08 - reductions equal NumPy's along the named axis and drop only that axis."""
import copy, itertools, math, warnings
from fractions import Fraction
import numpy as np
import core, gen
from core import da, Axis, DimArray
from .base import Prop

FNS = ["sum", "prod", "mean", "var", "std", "min", "max", "ptp", "all", "any", "median"]
ROUND = {"mean", "var", "std", "sum", "prod", "median"}


def expected_red(fn, skipna):
    """the reduction of one fibre as the property defines it (NumPy's f; NaN policy per skipna)"""
    def f(x):
        x = np.asarray(x)
        with warnings.catch_warnings():
            warnings.simplefilter("ignore")
            with np.errstate(all="ignore"):
                isn = np.isnan(x) if x.dtype.kind == "f" else np.zeros(x.shape, bool)
                if not skipna:
                    if fn == "median":
                        return np.nan if isn.any() else np.median(x)
                    return getattr(np, fn)(x)
                y = x[~isn]
                if y.size == 0:
                    return {"sum": 0.0, "prod": 1.0, "all": True, "any": False}.get(fn, np.nan)
                return getattr(np, fn)(y)
    return f


PREC = [11]      # significant digits compared (float32 arrays: single precision arithmetic inside NumPy)


def rnd(v, fn):
    v = float(v)
    if math.isnan(v):
        return ["nan"]
    if fn in ROUND or PREC[0] < 11:
        return ["r", float("%.*e" % (PREC[0], v))]
    return core.canon_value(v)


def differ(xs, ys):
    """do two lists of rounded values differ?  (single-precision arrays: compared with a relative tolerance,
    because rounding to a fixed number of digits flips at the boundaries)"""
    if PREC[0] >= 11:
        return xs != ys
    if len(xs) != len(ys):
        return True
    for x, y in zip(xs, ys):
        if x == y:
            continue
        if x[0] == "r" and y[0] == "r" and math.isclose(x[1], y[1], rel_tol=1e-4, abs_tol=1e-6):
            continue
        return True
    return False


def nan_pattern(rng, shape, how):
    n = int(np.prod(shape)) if shape else 1
    if how == "none" or n == 0:
        return []
    if how == "all":
        return list(range(n))
    if how == "some":
        return sorted(rng.sample(range(n), max(1, n // 4)))
    # a whole fibre along a random dimension (plus a few others)
    d = rng.randrange(len(shape))
    idx = [rng.randrange(s) for s in shape]
    out = set()
    for k in range(shape[d]):
        idx[d] = k
        out.add(int(np.ravel_multi_index(idx, shape)))
    for _ in range(rng.randint(0, 2)):
        out.add(rng.randrange(n))
    return sorted(out)


def axis_py(ax):
    if ax is None:
        return None
    if ax[0] == "many":
        return tuple(k[1] for k in ax[1])
    return ax[1]


class C08(Prop):
    id = "C08"
    theorems = ["reduce_axes_spec", "fibre_get", "fibre_length", "dealWithAxis_name_pos", "reduce_none_scalar",
                "reduce_tuple_eq_flatten", "getFunc_table_policy", "getFunc_table_covers", "reduce_none_row_major", "reduce_rank1_scalar", "dealWithAxis_pos_spec", "reduce_name_spec", "reduce_commute_transpose", "reduce_tuple_cells"]
    rule = ("float/int/bool arrays of rank 1-4, sizes 1-4, NaN patterns none / some / whole fibre / all; every reduction "
            "(sum prod mean var std min max ptp all any median) x axis by name / position / negative position / tuple of "
            "names in any order / None x skipna; percentile with scalar and list pct. The (function, skipna) -> NumPy "
            "family table of _get_func is tabulated from the implementation on every run. Non-trivial = rank >= 2 or "
            "NaNs present; distinct = canonical JSON")
    assumptions = ["what a NumPy reduction computes on a 1-D fibre is NumPy's; sum/prod/mean/var/std/median compared after rounding to 12 significant digits"]

    def mirrors(self):
        import sys as _s
        t = _s.modules["dimarray.core.transform"]
        st = _s.modules["dimarray.lib.stats"]
        return {"apply_along_axis": t.apply_along_axis, "_deal_with_axis": t._deal_with_axis, "_get_func": t._get_func,
                "_median_with_nan": t._median_with_nan, "_MaskedArrayFunc": t._MaskedArrayFunc, "percentile": st.percentile}

    # ---- finite decision table
    def pre_build(self):
        import sys as _s
        t = _s.modules["dimarray.core.transform"]
        rows = []
        for fn in FNS + ["cumsum", "cumprod", "argmin", "argmax"]:
            for skipna in (False, True):
                f = t._get_func(fn, skipna)
                if isinstance(f, t._MaskedArrayFunc):
                    fam = "masked"
                elif f is t._median_with_nan:
                    fam = "mediannan"
                elif getattr(np, "nan" + fn, None) is f:
                    fam = "nanfunc"
                elif getattr(np, fn, None) is f:
                    fam = "plain"
                else:
                    fam = "other"
                rows.append((fn, skipna, fam))
        body = ",\n  ".join('("%s", %s, "%s")' % (fn, "true" if s else "false", fam) for fn, s, fam in rows)
        content = ("/- GENERATED on every run by harness/props/c08.py from dimarray.core.transform._get_func -/\n"
                   "namespace DimModel.Gen\n\n/-- (function name, skipna, selected family) -/\n"
                   "def getFuncTable : List (String × Bool × String) := [\n  %s]\n\nend DimModel.Gen\n" % body)
        changed = core.write_table("TableC08", content)
        self._table = rows
        return {"changed": changed, "summary": {"_get_func rows": len(rows)}, "rows": rows}

    def table_failing_rows(self, info):
        bad = []
        for fn, s, fam in info["rows"]:
            ok = (fam in ("nanfunc", "masked")) if s else (fam == "plain" or (fn == "median" and fam == "mediannan"))
            if not ok:
                bad.append({"function": fn, "skipna": s, "family": fam})
        return bad

    def table_replay_hint(self):
        return "from dimarray.core.transform import _get_func; _get_func(function, skipna)"

    def extra_evidence(self):
        return {"tabulated_rows": len(getattr(self, "_table", []))}

    # ------------------------------------------------------------ generation
    def gen(self, rng, tier):
        n = 1000 if tier == "quick" else 30000
        # stratum: every function over a tuple of dimensions with unevenly spread NaNs, both skipna settings
        # (reducing "all at once" differs from one dimension after the other exactly there)
        for k in range(12 * len(FNS) if tier == "quick" else 150 * len(FNS)):
            rank = rng.choice([2, 3, 3])
            arr = gen.rand_array(rng, rank=rank, maxn=4, minn=2)
            arr["vkind"] = "f"
            shape = [len(a["labels"]) for a in arr["axes"]]
            arr["nan_at"] = nan_pattern(rng, shape, "some")
            gen.dtype_variants(rng, arr)
            names = [a["name"] for a in arr["axes"]]
            if FNS[k % len(FNS)] == "prod":
                arr.pop("vdtype", None)
            yield {"op": "reduce", "array": arr, "fn": FNS[k % len(FNS)],
                   "axis": ["many", [["name", d] for d in rng.sample(names, rng.randint(2, rank))]], "skipna": rng.random() < 0.7}
        for _ in range(n):
            rank = rng.choice([1, 2, 2, 3, 3, 4])
            arr = gen.rand_array(rng, rank=rank, maxn=4, minn=1)
            vk = rng.choice(["f", "f", "f", "i", "b"])
            arr["vkind"] = vk
            shape = [len(a["labels"]) for a in arr["axes"]]
            arr["nan_at"] = nan_pattern(rng, shape, rng.choice(["none", "some", "fibre", "all", "some"])) if vk == "f" else []
            if rng.random() < 0.4:
                arr["attrs_py"] = {"units": "K", "n": 2}
            gen.dtype_variants(rng, arr)
            fn = rng.choice(FNS)
            if vk == "b" and fn in ("ptp", "var", "std", "mean", "median", "prod", "sum"):
                fn = rng.choice(["all", "any", "min", "max"])
            names = [a["name"] for a in arr["axes"]]
            r = rng.random()
            if r < 0.12:
                ax = None
            elif r < 0.3 and rank >= 2:
                k = rng.randint(2, rank)
                ax = ["many", [["name", d] for d in rng.sample(names, k)]]
            else:
                d = rng.randrange(rank)
                ax = rng.choice([["name", names[d]], ["pos", d], ["pos", d - rank]])
            if rng.random() < 0.12 and vk != "b":
                yield {"op": "percentile", "array": arr, "axis": ax if (ax and ax[0] != "many") else ["pos", 0],
                       "pct": rng.choice([50, 25.0, [10, 50], [50], [0, 100, 50]])}
                continue
            if fn == "prod":
                arr.pop("vdtype", None)       # (a product of a dozen values overflows single precision)
            yield {"op": "reduce", "array": arr, "fn": fn, "axis": ax, "skipna": rng.random() < 0.5}

    # ------------------------------------------------------------ implementation side
    def impl(self, c):
        toks = core.AttrTokens()
        a = core.build_array(c["array"], 0)
        before = core.obs_array(a, toks)

        def run():
            with warnings.catch_warnings():
                warnings.simplefilter("ignore")
                with np.errstate(all="ignore"):
                    if c["op"] == "percentile":
                        from dimarray.lib.stats import percentile
                        r = percentile(a, c["pct"], axis=axis_py(c["axis"]))
                    else:
                        r = getattr(a, c["fn"])(axis=axis_py(c["axis"]), skipna=c["skipna"])
            o = core.obs_array(r, toks)
            o["raw"] = [None if x is None else x for x in np.asarray(r.values if isinstance(r, DimArray) else r, dtype=float).reshape(-1).tolist()] \
                if np.asarray(r.values if isinstance(r, DimArray) else r).dtype.kind != "O" else None
            return o
        out = core.guarded(run)
        out["input"] = before
        if core.obs_array(a, toks) != before:
            out["operand_modified"] = True
        return out

    def request(self, c):
        toks = core.AttrTokens()
        arr = core.lean_array(gen.clean(c["array"]), toks)
        if c["op"] == "percentile":
            return {"op": "transform", "fn": "reduce", "arrays": [arr], "axis": c["axis"]}
        return {"op": "transform", "fn": "reduce", "arrays": [arr], "axis": c["axis"]}

    def expected_numpy(self, c, a):
        """NumPy's f over .values along the dimension(s), straight from the statement"""
        vals = a.values
        names = list(a.dims)
        ax = c["axis"]
        f = expected_red(c["fn"], c["skipna"])
        if ax is None:
            return [f(vals.reshape(-1))], []
        if ax[0] == "many":
            red = [k[1] for k in ax[1]]
        else:
            red = [names[ax[1]] if ax[0] == "pos" else ax[1]]
        keep = [d for d in names if d not in red]
        perm = [names.index(d) for d in keep] + [names.index(d) for d in red]
        v = vals.transpose(perm)
        kshape = v.shape[:len(keep)]
        v = v.reshape(int(np.prod(kshape)) if kshape else 1, -1)
        return [f(row) for row in v], keep

    def judge(self, c, io, ans):
        lean = ans["lib"]
        bad, prop_bad = [], []
        a = core.build_array(c["array"], 0)
        PREC[0] = 5 if a.values.dtype == np.float32 else 11
        if c["op"] == "percentile":
            # axes bookkeeping of the mirror only for scalar pct; values straight from NumPy
            if "ok" in io:
                pos = a.dims.index(c["axis"][1]) if c["axis"][0] == "name" else c["axis"][1] % a.ndim
                with np.errstate(all="ignore"), warnings.catch_warnings():
                    warnings.simplefilter("ignore")
                    want = np.percentile(a.values, c["pct"], axis=pos)
                keep = [d for i, d in enumerate(a.dims) if i != pos]
                got = io["ok"]
                wd = keep if np.isscalar(c["pct"]) else [a.dims[pos] + "_percentile"] + keep
                if not got["scalar"] and got["dims"] != wd:
                    prop_bad.append("dims")
                if [rnd(v, "mean") for v in np.asarray(want, dtype=float).reshape(-1)] != [rnd(v, "mean") for v in (got["raw"] or [])]:
                    prop_bad.append("values:numpy")
                if not got["scalar"]:
                    in_axes = {x["name"]: x["labels"] for x in io["input"]["axes"]}
                    for x in got["axes"]:
                        if x["name"] in in_axes and x["labels"] != in_axes[x["name"]]:
                            prop_bad.append("axes.labels")
                    if not np.isscalar(c["pct"]) and got["dims"] == wd:
                        # NumPy returns the percentiles in the order requested: slice k is labelled pct[k]
                        want_l = [float(q) for q in c["pct"]]
                        got_l = [float(Fraction(l[1], l[2])) if l[0] == "n" else None for l in got["axes"][0]["labels"]]
                        if got_l != want_l:
                            prop_bad.append("axes.labels:percentile")
            elif "ok" in lean:
                prop_bad.append("outcome:" + io["err"])
            if not prop_bad:
                return None
            return {"kind": "P", "differs": sorted(set(prop_bad)), "msg": io.get("msg")}
        f = expected_red(c["fn"], c["skipna"])
        if "ok" in lean:
            env = core.CellEnv([a.values], red=f)
            lo = lean["ok"]
            if "scalar" in lo:
                lvals = [rnd(env.ev(lo["scalar"]), c["fn"])]
                ldims, laxes = [], []
            else:
                lvals = [rnd(env.ev(x), c["fn"]) for x in lo["cells"]]
                ldims, laxes = lo["dims"], lo["axes"]
            if "err" in io:
                bad.append("outcome")
            else:
                got = io["ok"]
                gvals = [rnd(v, c["fn"]) for v in got["raw"]] if got["raw"] is not None else got["values"]
                if got["dims"] != ldims:
                    bad.append("dims")
                if [(x["name"], x["labels"]) for x in got["axes"]] != [(x["name"], x["labels"]) for x in laxes]:
                    bad.append("axes")
                if differ(gvals, lvals):
                    bad.append("values")
                if not got["scalar"] and "scalar" not in lo and got["attrs"] != lo["attrs"]:
                    bad.append("attrs")
        else:
            if "ok" in io:
                bad.append("outcome")
            elif io["err"] != lean["err"]:
                bad.append("M.errclass")
        if "ok" in io:
            got = io["ok"]
            want, keep = self.expected_numpy(c, a)
            gvals = [rnd(v, c["fn"]) for v in got["raw"]] if got["raw"] is not None else got["values"]
            if differ(gvals, [rnd(v, c["fn"]) for v in want]):
                prop_bad.append("values:numpy")
            if got["dims"] != keep:
                prop_bad.append("dims:remaining")
            else:
                in_axes = {x["name"]: x for x in io["input"]["axes"]}
                for x in got["axes"]:
                    if x["labels"] != in_axes[x["name"]]["labels"]:
                        prop_bad.append("axes.labels")
            if not got["scalar"] and got["attrs"] != io["input"]["attrs"]:
                prop_bad.append("attrs")
            if c["axis"] is None and not got["scalar"]:
                prop_bad.append("scalar")
        elif "ok" in lean:
            prop_bad.append("outcome:" + io["err"])
        if io.get("operand_modified"):
            prop_bad.append("operand_modified")
        if not bad and not prop_bad:
            return None
        return {"kind": "P" if prop_bad else "M", "differs": sorted(set(bad + prop_bad)), "msg": io.get("msg")}

    def known(self, c, io, ans, mm, open_findings):
        ids = {f["id"] for f in open_findings}
        if "K07" in ids and c.get("fn") in ("any", "all") and c.get("skipna") and c["array"].get("nan_at") \
                and set(mm["differs"]) <= {"values", "values:numpy"} and "ok" in io:
            # only result cells whose whole slice is NaN may differ
            a = core.build_array(c["array"], 0)
            want, _ = self.expected_numpy(c, a)
            c2 = dict(c, fn="min", skipna=False)
            allnan = [bool(np.all(np.isnan(row))) for row in self.fibres(c, a)]
            got = io["ok"]["raw"]
            if got is not None and len(got) == len(want) and all(
                    (rnd(g, c["fn"]) == rnd(w, c["fn"])) or an for g, w, an in zip(got, want, allnan)):
                return "K07"
        return None

    def fibres(self, c, a):
        vals = a.values
        names = list(a.dims)
        ax = c["axis"]
        if ax is None:
            return [vals.reshape(-1)]
        red = [k[1] for k in ax[1]] if ax[0] == "many" else [names[ax[1]] if ax[0] == "pos" else ax[1]]
        keep = [d for d in names if d not in red]
        perm = [names.index(d) for d in keep] + [names.index(d) for d in red]
        v = vals.transpose(perm)
        kshape = v.shape[:len(keep)]
        return list(v.reshape(int(np.prod(kshape)) if kshape else 1, -1))

    def nontrivial(self, c):
        return len(c["array"]["axes"]) >= 2 or bool(c["array"].get("nan_at"))

    def features(self, c, io):
        ax = c["axis"]
        return {"outcome": "err:" + io["err"] if "err" in io else "ok", "op": c["op"], "fn": c.get("fn"), "skipna": c.get("skipna"),
                "rank": len(c["array"]["axes"]), "vkind": c["array"]["vkind"], "nan": bool(c["array"].get("nan_at")),
                "axis": "none" if ax is None else ("tuple" if ax[0] == "many" else ax[0])}

    def size(self, c):
        return sum(len(a["labels"]) for a in c["array"]["axes"]) + 5 * len(c["array"]["axes"])

    def snippet(self, c):
        return ("import sys; sys.path.insert(0, '/verif/harness'); import json, core; from props.c08 import PROP; "
                "case = json.load(open(REPLAY))['case']; print(PROP.impl(case))")


PROP = C08()

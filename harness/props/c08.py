"""C08 - reductions equal NumPy's along the named axis and drop only that axis."""
import copy, itertools, math, os, warnings
from fractions import Fraction
import numpy as np
import core, gen
from core import da, Axis, DimArray
from .base import Prop
from . import c08red

FNS = ["sum", "prod", "mean", "var", "std", "min", "max", "ptp", "all", "any", "median"]
ROUND = {"mean", "var", "std", "sum", "prod", "median"}


def expected_red(fn, skipna):
    """the reduction of one fibre as the property defines it (NumPy's f; NaN policy per skipna)"""
    def f(x):
        x = np.asarray(x)
        with warnings.catch_warnings():
            warnings.simplefilter("ignore")
            with np.errstate(all="ignore"):
                isn = np.isnan(x) if x.dtype.kind == "f" else np.zeros(x.shape, bool)
                if not skipna:
                    if fn == "median":
                        return np.nan if isn.any() else np.median(x)
                    return getattr(np, fn)(x)
                y = x[~isn]
                if y.size == 0:
                    return {"sum": 0.0, "prod": 1.0, "all": True, "any": False}.get(fn, np.nan)
                return getattr(np, fn)(y)
    return f


PREC = [11]      # significant digits compared (float32 arrays: single precision arithmetic inside NumPy)


def rnd(v, fn):
    v = float(v)
    if math.isnan(v):
        return ["nan"]
    if fn in ROUND or PREC[0] < 11:
        return ["r", float("%.*e" % (PREC[0], v))]
    return core.canon_value(v)


def differ(xs, ys):
    """do two lists of rounded values differ?  (single-precision arrays: compared with a relative tolerance,
    because rounding to a fixed number of digits flips at the boundaries)"""
    if PREC[0] >= 11:
        return xs != ys
    if len(xs) != len(ys):
        return True
    for x, y in zip(xs, ys):
        if x == y:
            continue
        if x[0] == "r" and y[0] == "r" and math.isclose(x[1], y[1], rel_tol=1e-4, abs_tol=1e-6):
            continue
        return True
    return False


def nan_pattern(rng, shape, how):
    n = int(np.prod(shape)) if shape else 1
    if how == "none" or n == 0:
        return []
    if how == "all":
        return list(range(n))
    if how == "some":
        return sorted(rng.sample(range(n), max(1, n // 4)))
    # a whole fibre along a random dimension (plus a few others)
    d = rng.randrange(len(shape))
    idx = [rng.randrange(s) for s in shape]
    out = set()
    for k in range(shape[d]):
        idx[d] = k
        out.add(int(np.ravel_multi_index(idx, shape)))
    for _ in range(rng.randint(0, 2)):
        out.add(rng.randrange(n))
    return sorted(out)


def axis_py(ax):
    """the Python spelling of an axis description: None | ["name", d] | ["pos", k] |
    ["many", [["name", d] | ["pos", k], ...]] (a tuple) | ["many", [...], "list"] (a list)"""
    if ax is None:
        return None
    if ax[0] == "many":
        elems = [k[1] for k in ax[1]]
        return elems if (len(ax) > 2 and ax[2] == "list") else tuple(elems)
    return ax[1]


def lean_axis_arg(ax):
    """the same description as the Lean driver reads it (the container kind is not a notion of the model)"""
    if ax is not None and ax[0] == "many":
        return ["many", ax[1]]
    return ax


def resolve_dims(ax, names):
    """names of the dimensions an axis description designates (oracle side: positions as NumPy counts them)"""
    def one(k):
        return k[1] if k[0] == "name" else names[k[1] % len(names)]
    if ax is None:
        return None
    if ax[0] == "many":
        return [one(k) for k in ax[1]]
    return [one(ax)]


def spell_elems(rng, dims_listed, names, how=None):
    """spell a list of dimension names as names / positions / negative positions / a mix"""
    how = how or rng.choice(["names", "pos", "neg", "mixed", "mixed"])
    out = []
    for d in dims_listed:
        i = names.index(d)
        h = how if how != "mixed" else rng.choice(["names", "pos", "neg"])
        out.append(["name", d] if h == "names" else (["pos", i] if h == "pos" else ["pos", i - len(names)]))
    if how == "mixed" and len(out) >= 2 and len({k[0] for k in out}) == 1:
        # make it really mixed: one name and one position
        i = names.index(dims_listed[0])
        out[0] = ["pos", i] if out[0][0] == "name" else ["name", dims_listed[0]]
    return out


AX_ATTRS = [{"units": "m"}, {"long_name": "a dimension", "k": 3}, {"units": "s", "tag": [1, 2]}]


def add_axis_attrs(rng, arr, p=0.5):
    """metadata on (some of) the axes: a remaining axis is the input's axis, its attrs included"""
    for ax in arr["axes"]:
        if rng.random() < p:
            ax["attrs_py"] = dict(rng.choice(AX_ATTRS), dim=ax["name"])
    return arr


# TODO(defect): percentile(a, q, axis) returns an array without a.attrs (lib/stats.py builds DimArray(results, axes=subaxes)
# and stacks); the property lists percentile among the reductions that carry the array's metadata.  While this is open
# the metadata of a percentile result is not demanded when the input has metadata.
TODO_DEFECT_PCT_ATTRS = False
# TODO(defect): percentile(a, q, axis=(d1, d2)) raises TypeError ("axis must be int or str"): the tuple form of the
# property ("a tuple of dimensions reduces over all of them at once") does not exist for percentile.  While this is open
# the tuple stratum of percentile is not generated.
TODO_DEFECT_PCT_TUPLE = False


# (outside the property, which names percentile only; seen while mirroring lib.stats.quantile)
# quantile(a, q, axis=(d1, d2)) raises TypeError ("axis must be int or str": a._get_axis_info is asked before percentile
# flattens the tuple) although percentile accepts the tuple since F55; quantile(a, [0, 1]) - every level a Python int -
# raises UFuncTypeError (the integer percentile labels are divided in place by 100.).  Neither form is generated.
QUANTILE_TUPLE_AXIS_FAILS = True
QUANTILE_INT_LEVELS_FAIL = True


def rat(x):
    """a percentile / quantile level as an exact rational [numerator, denominator]"""
    fr = Fraction(x.item() if isinstance(x, np.generic) else x)
    return [fr.numerator, fr.denominator]


def pct_kind(levels):
    """dtype kind of Axis(levels, ...): integer when every level is a Python int"""
    return "i" if all(isinstance(q, (int, np.integer)) and not isinstance(q, bool) for q in levels) else "f"


class PctEnv(core.CellEnv):
    """evaluator of the symbolic cells of Lib.percentile: `redp q fibre` is NumPy's q-th percentile of the 1-D fibre
    (Lean: the abstract `redq q cells`); everything else as in core.CellEnv"""
    def __init__(self, inputs):
        core.CellEnv.__init__(self, inputs)
        self.dtype = self.inputs[0].dtype

    def ev(self, c):
        if c[0] == "redp":
            fib = np.array([self.ev(x) for x in c[3]])
            if self.dtype.kind == "f":
                fib = fib.astype(self.dtype)       # (a NaN cell is a Python float: keep the array's own precision)
            with np.errstate(all="ignore"), warnings.catch_warnings():
                warnings.simplefilter("ignore")
                return np.percentile(fib, float(Fraction(c[1], c[2])))
        return core.CellEnv.ev(self, c)


class C08(Prop):
    id = "C08"
    theorems = ["reduce_axes_spec", "fibre_get", "fibre_length", "dealWithAxis_name_pos", "reduce_none_scalar",
                "reduce_tuple_eq_flatten", "getFunc_table_policy", "getFunc_table_covers", "selectRed_covers_table", "selectRed_within_table",
                "familyOf_isSome_iff_hasModel", "reduce_none_row_major", "reduce_rank1_scalar", "dealWithAxis_pos_spec", "reduce_name_spec", "reduce_commute_transpose", "reduce_tuple_cells",
                "percentile_spec", "percentile_scalar_spec", "percentile_tuple_spec", "percentile_rank1_spec", "percentile_none_scalar",
                "percentile_refuses", "quantile_spec",
                "red_plain_nan", "red_skipna_eq_plain_filter", "red_skipna_all_nan", "red_empty_fibre", "red_skipna_no_nan",
                "red_inf_not_missing", "sum_perm", "cumsum_last_eq_sum", "argmin_spec", "argmax_spec",
                "nanargmin_inf_counterexample", "reduceX_name_spec",
                "min_perm", "max_perm", "prod_perm", "mean_perm", "var_perm", "nanargmin_spec", "nanargmax_spec",
                "nanargmax_inf_counterexample", "cumsum_prefix_spec", "cumX_name_spec"]
    rule = ("float/int/bool arrays of rank 1-4, sizes 1-4, NaN patterns none / some / whole fibre / all, metadata on the "
            "array and on (some of) its axes; every reduction (sum prod mean var std min max ptp all any median) x axis by "
            "name / position / negative position / tuple or list of names, positions, negative positions or a mix, in any "
            "order, of one, some or all the dimensions / None x skipna; axis and skipna written as keywords, positionally "
            "(a.sum(0), a.sum(0, True)) or left to their defaults; percentile with scalar / list / tuple / ndarray pct, axis "
            "by name / position / default / None / tuple, with and without newaxis= (compared cell by cell with the mirror "
            "Lib.percentile: symbolic cells `redp q fibre`), plus a stratum of float percentile lists and of "
            "lib.stats.quantile with dyadic levels. The (function, skipna) -> NumPy "
            "family table of _get_func is tabulated from the implementation on every run; the concrete model Lib/Reduce.lean is "
            "tied to it row by row (`selectRed_covers_table`: every row except std has a model function whose family - "
            "`Lib.familyOf` - is the row's family), so a _get_func that switches a family breaks the proof stage; the failing "
            "row is then named together with a fibre on which the selected function differs from the due one. Stratum redx (concrete fibre "
            "semantics): float arrays of rank 1-3, sizes 0-4, cells small integers / dyadic rationals / 0-1 with NaN, +inf, "
            "-inf sprinkled (none / one / several / a whole fibre / all); sum prod mean min max ptp all any median var "
            "argmin argmax cumsum cumprod std x skipna x axis by name / position / negative position / tuple / None (argmin / "
            "argmax over a tuple of dimensions and over the whole array return tuples of labels: mapped back to the position in "
            "the flattened group / array; cumulative functions over a tuple: the grouped dimension comes first, judged by the "
            "oracle too; std: sqrt of the model's var): the driver "
            "evaluates the concrete model Lib/Reduce.lean (selectRed / selectScan through reduceX / cumAxis) and returns exact "
            "cells (rational, nan, inf, -inf) or the error class, compared cell by cell with the implementation (NaN "
            "positions, infinities and error classes exactly); oracle from the statement: the skipna result is NumPy's plain "
            "function on the fibre without its NaNs (corner values when nothing is left). Non-trivial = rank >= 2 or "
            "NaNs present; distinct = canonical JSON")
    assumptions = ["what a NumPy reduction computes on a 1-D fibre is NumPy's; sum/prod/mean/var/std/median compared after rounding to 12 significant digits",
                   "stratum redx: rounding is not modelled - a model value that is exactly a float64 must be returned exactly "
                   "(var excepted: two rounding passes), any other within 1e-12 relative; std (needs a square root) is not in the concrete model: "
                   "the implementation's std is compared with the square root (computed by the harness to 30 digits) of the model's var, within 1e-12 relative",
                   "stratum redx, argmin / argmax over several dimensions: a returned tuple of labels is mapped back to a position through the first occurrence of each label in its axis",
                   "stratum redx: a rank-0 DimArray (what the masked-array switcher returns for ptp/all/any of an all-NaN 1-D array) is observed as a scalar",
                   "stratum redx: argmin/argmax(skipna=True) of a fibre whose non-NaN cells are all +inf / -inf behind a NaN: the reference is NumPy's nanargmin / nanargmax itself (it replaces NaN by +inf and returns the NaN's position; mirrored, `nanargmin_inf_counterexample`)"]

    def mirrors(self):
        import sys as _s
        t = _s.modules["dimarray.core.transform"]
        st = _s.modules["dimarray.lib.stats"]
        return {"apply_along_axis": t.apply_along_axis, "_deal_with_axis": t._deal_with_axis, "_get_func": t._get_func,
                "_median_with_nan": t._median_with_nan, "_MaskedArrayFunc": t._MaskedArrayFunc, "percentile": st.percentile,
                "quantile": st.quantile}

    # ---- finite decision table
    def pre_build(self):
        import sys as _s
        t = _s.modules["dimarray.core.transform"]
        rows = []
        for fn in FNS + ["cumsum", "cumprod", "argmin", "argmax"]:
            for skipna in (False, True):
                f = t._get_func(fn, skipna)
                if isinstance(f, t._MaskedArrayFunc):
                    fam = "masked"
                elif f is t._median_with_nan:
                    fam = "mediannan"
                elif getattr(np, "nan" + fn, None) is f:
                    fam = "nanfunc"
                elif getattr(np, fn, None) is f:
                    fam = "plain"
                else:
                    fam = "other"
                rows.append((fn, skipna, fam))
        body = ",\n  ".join('("%s", %s, "%s")' % (fn, "true" if s else "false", fam) for fn, s, fam in rows)
        content = ("/- GENERATED on every run by harness/props/c08.py from dimarray.core.transform._get_func -/\n"
                   "namespace DimModel.Gen\n\n/-- (function name, skipna, selected family) -/\n"
                   "def getFuncTable : List (String × Bool × String) := [\n  %s]\n\nend DimModel.Gen\n" % body)
        changed = core.write_table("TableC08", content)
        self._table = rows
        return {"changed": changed, "summary": {"_get_func rows": len(rows)}, "rows": rows}

    def model_families(self):
        """(name, skipna) -> family of the concrete model: read from the definition `Lib.familyOf` (Lib/Reduce.lean), the
        single place where the model states which family of `_get_func` each of its functions mirrors"""
        import re as _re
        txt = open(os.path.join(core.LEAN, "DimModel", "Lib", "Reduce.lean")).read()
        body = txt[txt.index("def familyOf"):]
        body = body[:body.index("| _, _ => none")]
        return {(m.group(1), m.group(2) == "true"): m.group(3)
                for m in _re.finditer(r'\|\s*"(\w+)",\s*(true|false)\s*=>\s*some\s*"(\w+)"', body)}

    def family_witness(self, fn, skipna, due):
        """a fibre on which the function `_get_func(fn, skipna)` returns differs from the function of the family `due`"""
        import sys as _s
        t = _s.modules["dimarray.core.transform"]
        ref = {"plain": lambda: getattr(np, fn), "nanfunc": lambda: getattr(np, "nan" + fn),
               "mediannan": lambda: t._median_with_nan, "masked": lambda: t._MaskedArrayFunc(fn)}.get(due)
        nan, inf = float("nan"), float("inf")
        fibres = [[1.0, nan, 3.0], [nan, 2.0, 0.0], [nan, nan], [2.0, 1.0, 4.0], [nan, inf], [0.0, nan], [nan]]

        def obs(f, x):
            try:
                with warnings.catch_warnings():
                    warnings.simplefilter("ignore")
                    with np.errstate(all="ignore"):
                        r = f(np.array(x))
                r = np.ma.filled(r, np.nan) if isinstance(r, np.ma.MaskedArray) or r is np.ma.masked else r
                return ["ok", [repr(float(v)) for v in np.asarray(r, dtype=float).reshape(-1)]]
            except Exception as e:
                return ["err", type(e).__name__]
        try:
            want_f, got_f = ref(), t._get_func(fn, skipna)
        except Exception as e:
            return {"unavailable": "%s: %s" % (type(e).__name__, e)}
        for x in fibres:
            g, w = obs(got_f, x), obs(want_f, x)
            if g != w:
                return {"fibre": [repr(v) for v in x], "selected_returns": g, "due_family_returns": w}
        return None

    def table_failing_rows(self, info):
        bad = []
        model = self.model_families()
        for fn, s, fam in info["rows"]:
            ok = (fam in ("nanfunc", "masked")) if s else (fam == "plain" or (fn == "median" and fam == "mediannan"))
            if not ok:
                bad.append({"function": fn, "skipna": s, "family": fam, "theorem": "getFunc_table_policy"})
            if fn != "std" and model.get((fn, s)) != fam:
                # `selectRed_covers_table`: the concrete model mirrors another family than the one selected now
                bad.append({"function": fn, "skipna": s, "family": fam, "model_family": model.get((fn, s)),
                            "theorem": "selectRed_covers_table", "witness": self.family_witness(fn, s, model.get((fn, s)))})
        return bad

    def table_replay_hint(self):
        return "from dimarray.core.transform import _get_func; _get_func(function, skipna)"

    def extra_evidence(self):
        return {"tabulated_rows": len(getattr(self, "_table", []))}

    # ------------------------------------------------------------ generation
    def spelling(self, rng, ax, skipna):
        """how the call is written: axis / skipna as keywords, positionally (a.sum(0), a.sum(0, True)) or left to
        their defaults (axis=None, skipna=False: the documented signature f(axis=None, skipna=False))"""
        r = rng.random()
        sp = {"axis": "kw", "skipna": "kw"}
        if r < 0.55:
            return sp
        if ax is None and rng.random() < 0.6:
            sp["axis"] = "omit"
        elif rng.random() < 0.6:
            sp["axis"] = "pos"
        if not skipna and rng.random() < 0.6:
            sp["skipna"] = "omit"
        elif sp["axis"] == "pos" and rng.random() < 0.4:
            sp["skipna"] = "pos"
        return sp

    def gen(self, rng, tier):
        n = 1000 if tier == "quick" else 30000
        # stratum: every function over a tuple of dimensions with unevenly spread NaNs, both skipna settings
        # (reducing "all at once" differs from one dimension after the other exactly there)
        for k in range(12 * len(FNS) if tier == "quick" else 150 * len(FNS)):
            rank = rng.choice([2, 3, 3])
            arr = gen.rand_array(rng, rank=rank, maxn=4, minn=2)
            arr["vkind"] = "f"
            shape = [len(a["labels"]) for a in arr["axes"]]
            arr["nan_at"] = nan_pattern(rng, shape, "some")
            gen.dtype_variants(rng, arr)
            add_axis_attrs(rng, arr, 0.3)
            names = [a["name"] for a in arr["axes"]]
            if FNS[k % len(FNS)] == "prod":
                arr.pop("vdtype", None)
            listed = rng.sample(names, rng.randint(2, rank))
            ax = ["many", spell_elems(rng, listed, names, rng.choice(["names", "names", "pos", "neg", "mixed"]))]
            if rng.random() < 0.25:
                ax.append("list")
            skipna = rng.random() < 0.7
            yield {"op": "reduce", "array": arr, "fn": FNS[k % len(FNS)], "axis": ax, "skipna": skipna,
                   "spell": self.spelling(rng, ax, skipna)}
        for _ in range(n):
            rank = rng.choice([1, 2, 2, 3, 3, 4])
            arr = gen.rand_array(rng, rank=rank, maxn=4, minn=1)
            vk = rng.choice(["f", "f", "f", "i", "b"])
            arr["vkind"] = vk
            shape = [len(a["labels"]) for a in arr["axes"]]
            arr["nan_at"] = nan_pattern(rng, shape, rng.choice(["none", "some", "fibre", "all", "some"])) if vk == "f" else []
            if vk == "f" and rng.random() < 0.2:
                # infinite cells are values, not missing values: skipna leaves them in
                size = 1
                for n_ in shape:
                    size *= n_
                free = [i for i in range(size) if i not in arr["nan_at"]]
                if free:
                    arr["inf_at"] = [[i, rng.choice([1, 1, -1])] for i in rng.sample(free, min(len(free), rng.randint(1, 2)))]
            if rng.random() < 0.4:
                arr["attrs_py"] = {"units": "K", "n": 2}
            gen.dtype_variants(rng, arr)
            if rng.random() < 0.5:
                add_axis_attrs(rng, arr)
            fn = rng.choice(FNS)
            if vk == "b" and fn in ("ptp", "var", "std", "mean", "median", "prod", "sum"):
                fn = rng.choice(["all", "any", "min", "max"])
            names = [a["name"] for a in arr["axes"]]
            r = rng.random()
            if r < 0.12:
                ax = None
            elif r < 0.34:
                # a tuple / list of dimensions: names, positions, negative positions or a mix, in any order; a single
                # listed dimension and all the dimensions included
                k = rng.choice([1, rank, rank] + list(range(2, rank)) * 4) if rank >= 2 else 1
                ax = ["many", spell_elems(rng, rng.sample(names, k), names)]
                if rng.random() < 0.3:
                    ax.append("list")
            else:
                d = rng.randrange(rank)
                ax = rng.choice([["name", names[d]], ["pos", d], ["pos", d - rank]])
            if rng.random() < 0.14 and vk != "b":
                yield self.gen_percentile(rng, arr, ax, names)
                continue
            if fn == "prod":
                arr.pop("vdtype", None)       # (a product of a dozen values overflows single precision)
            skipna = rng.random() < 0.5
            yield {"op": "reduce", "array": arr, "fn": fn, "axis": ax, "skipna": skipna, "spell": self.spelling(rng, ax, skipna)}
        for c in self.gen_stats_extra(rng, tier):
            yield c
        # concrete fibre semantics (NaN / inf / empty fibres) against the concrete model Lib/Reduce.lean
        for c in c08red.gen_cases(self, rng, tier):
            yield c

    def gen_stats_extra(self, rng, tier):
        """further forms of lib.stats, generated after the main stream: percentile with float / mixed lists of levels,
        and quantile (levels in [0, 1] that are dyadic, so that q*100 and the division back by 100 are exact)"""
        for _ in range(80 if tier == "quick" else 2500):
            rank = rng.choice([1, 2, 2, 3, 3, 4])
            arr = gen.rand_array(rng, rank=rank, maxn=4, minn=1)
            arr["vkind"] = rng.choice(["f", "f", "i"])
            shape = [len(a["labels"]) for a in arr["axes"]]
            arr["nan_at"] = nan_pattern(rng, shape, rng.choice(["none", "none", "some", "fibre"])) if arr["vkind"] == "f" else []
            if rng.random() < 0.5:
                arr["attrs_py"] = {"units": "K", "n": 2}
            gen.dtype_variants(rng, arr)
            if rng.random() < 0.5:
                add_axis_attrs(rng, arr)
            names = [a["name"] for a in arr["axes"]]
            d = rng.randrange(rank)
            ax = rng.choice([["name", names[d]], ["pos", d], ["pos", d - rank]])
            if rng.random() < 0.5:
                pct = rng.choice([[12.5, 50.0], [2.5], [100.0, 0.0], [50, 12.5], [37.5, 37.5, 5.0]])
                if rank >= 2 and rng.random() < 0.3:
                    ax = ["many", spell_elems(rng, rng.sample(names, rng.randint(1, rank)), names)]
                c = {"op": "percentile", "array": arr, "pct": pct, "pct_as": rng.choice(["list", "tuple", "ndarray"]),
                     "axis": ax, "axis_given": True}
            else:
                q = rng.choice([[0.5], [0.25, 0.75], [0.0, 1.0], [0.125, 0.5, 0.875], [0.75, 0.25], [1.0], [0.5, 0.5]])
                c = {"op": "quantile", "array": arr, "q": q, "q_as": rng.choice(["list", "tuple", "ndarray"]),
                     "axis": ax, "axis_given": rng.random() < 0.8}
                if not c["axis_given"]:
                    c["axis"] = ["pos", 0]
            if rng.random() < 0.4:
                c["newaxis"] = rng.choice(["q", "level", "quantile level"])
            yield c

    def gen_percentile(self, rng, arr, ax, names):
        """percentile(a, pct[, axis][, newaxis]): axis by name / position / left to its default (the first dimension) /
        None (scalar pct: the whole array) / a tuple; pct a scalar, a list, a tuple or an array; newaxis= names the
        percentile dimension"""
        pct = rng.choice([50, 25.0, [10, 50], [50], [0, 100, 50], [75, 25]])
        c = {"op": "percentile", "array": arr, "pct": pct, "pct_as": "list", "axis_given": True}
        if ax is None:
            if isinstance(pct, list):
                c["pct"] = pct = pct[0]       # axis=None "reduces the whole array to a scalar": one percentile
            c["axis"] = None
        elif ax[0] == "many":
            if TODO_DEFECT_PCT_TUPLE:
                c["axis"] = ["pos", 0]
                c["axis_given"] = rng.random() < 0.4      # default axis: the first dimension
            else:
                c["axis"] = ax
        else:
            c["axis"] = ax
        if isinstance(pct, list):
            c["pct_as"] = rng.choice(["list", "list", "tuple", "ndarray"])
            if rng.random() < 0.45:
                c["newaxis"] = rng.choice(["q", "pct", "quantile level"])
        elif rng.random() < 0.15:
            c["newaxis"] = "q"                # not used for a single percentile
        return c

    # ------------------------------------------------------------ implementation side
    def impl(self, c):
        if c["op"] == "redx":
            return c08red.impl(c)
        toks = core.AttrTokens()
        a = core.build_array(c["array"], 0)
        before = core.obs_array(a, toks)

        def run():
            with warnings.catch_warnings():
                warnings.simplefilter("ignore")
                with np.errstate(all="ignore"):
                    if c["op"] == "percentile":
                        from dimarray.lib.stats import percentile
                        pct = c["pct"]
                        if isinstance(pct, list):
                            pct = {"list": list, "tuple": tuple, "ndarray": np.array}[c.get("pct_as", "list")](pct)
                        kw = {}
                        if c.get("axis_given", True):
                            kw["axis"] = axis_py(c["axis"])
                        if "newaxis" in c:
                            kw["newaxis"] = c["newaxis"]
                        r = percentile(a, pct, **kw)
                    elif c["op"] == "quantile":
                        from dimarray.lib.stats import quantile
                        q = {"list": list, "tuple": tuple, "ndarray": np.array}[c.get("q_as", "list")](c["q"])
                        kw = {}
                        if c.get("axis_given", True):
                            kw["axis"] = axis_py(c["axis"])
                        if "newaxis" in c:
                            kw["newaxis"] = c["newaxis"]
                        r = quantile(a, q, **kw)
                    else:
                        sp = c.get("spell") or {"axis": "kw", "skipna": "kw"}
                        args, kw = [], {}
                        if sp["axis"] == "kw":
                            kw["axis"] = axis_py(c["axis"])
                        elif sp["axis"] == "pos":
                            args.append(axis_py(c["axis"]))
                        if sp["skipna"] == "kw":
                            kw["skipna"] = c["skipna"]
                        elif sp["skipna"] == "pos":
                            args.append(c["skipna"])
                        r = getattr(a, c["fn"])(*args, **kw)
            o = core.obs_array(r, toks)
            o["raw"] = [None if x is None else x for x in np.asarray(r.values if isinstance(r, DimArray) else r, dtype=float).reshape(-1).tolist()] \
                if np.asarray(r.values if isinstance(r, DimArray) else r).dtype.kind != "O" else None
            return o
        out = core.guarded(run)
        out["input"] = before
        if core.obs_array(a, toks) != before:
            out["operand_modified"] = True
        return out

    def request(self, c):
        if c["op"] == "redx":
            return c08red.request(c)
        toks = core.AttrTokens()
        arr = core.lean_array(gen.clean(c["array"]), toks)
        if c["op"] in ("percentile", "quantile"):
            # the mirrors Lib.percentile / Lib.quantile (axis left out: the default, position 0)
            ax = c["axis"] if c.get("axis_given", True) else ["pos", 0]
            req = {"op": "transform", "fn": c["op"], "arrays": [arr], "axis": lean_axis_arg(ax), "newaxis": c.get("newaxis")}
            if c["op"] == "quantile":
                req.update({"q": [rat(q) for q in c["q"]], "qkind": pct_kind(c["q"])})
            elif np.isscalar(c["pct"]):
                req["pct"] = {"form": "scalar", "q": rat(c["pct"])}
            else:
                req["pct"] = {"form": "many", "qs": [rat(q) for q in c["pct"]], "kind": pct_kind(c["pct"])}
            return req
        return {"op": "transform", "fn": "reduce", "arrays": [arr], "axis": lean_axis_arg(c["axis"])}

    def expected_numpy(self, c, a):
        """NumPy's f over .values along the dimension(s), straight from the statement"""
        f = expected_red(c["fn"], c["skipna"])
        rows, keep = self.fibres(c, a, True)
        return [f(row) for row in rows], keep

    def judge(self, c, io, ans):
        if c["op"] == "redx":
            return c08red.judge(self, c, io, ans)
        lean = ans["lib"]
        bad, prop_bad = [], []
        a = core.build_array(c["array"], 0)
        PREC[0] = 5 if a.values.dtype == np.float32 else 11
        if c["op"] in ("percentile", "quantile"):
            isq = c["op"] == "quantile"
            levels = c["q"] if isq else c["pct"]              # the labels of the new dimension
            pcts = [q * 100 for q in levels] if isq else levels      # what NumPy is asked for
            # ---- the mirror (Lib.percentile / Lib.quantile): outcome, dims, axes (labels, metadata, the new dimension's
            # name, labels and label kind), array metadata, and every cell = NumPy's percentile of the fibre the model names
            if "ok" in lean:
                env = PctEnv([a.values])
                lo = lean["ok"]
                if "scalar" in lo:
                    lvals, ldims, laxes, lshape = [rnd(env.ev(lo["scalar"]), "mean")], [], [], []
                else:
                    lvals, ldims, laxes, lshape = [rnd(env.ev(x), "mean") for x in lo["cells"]], lo["dims"], lo["axes"], lo["shape"]
                if "err" in io:
                    bad.append("outcome")
                else:
                    got = io["ok"]
                    if got["scalar"] != ("scalar" in lo):
                        bad.append("scalar")
                    if got["dims"] != ldims:
                        bad.append("dims")
                    if got["shape"] != lshape:
                        bad.append("shape")
                    if [(x["name"], [Fraction(l[1], l[2]) if l[0] == "n" else l for l in x["labels"]]) for x in got["axes"]] != \
                            [(x["name"], [Fraction(l[1], l[2]) if l[0] == "n" else l for l in x["labels"]]) for x in laxes]:
                        bad.append("axes")
                    elif [x["attrs"] for x in got["axes"]] != [x.get("attrs", []) for x in laxes]:
                        bad.append("axes.attrs")
                    elif not np.isscalar(levels) and got["axes"] and got["axes"][0]["kind"] != laxes[0]["kind"]:
                        bad.append("M.axes.kind")
                    if differ([rnd(v, "mean") for v in (got["raw"] or [])], lvals):
                        bad.append("values")
                    if not got["scalar"] and "scalar" not in lo and got["attrs"] != lo["attrs"]:
                        bad.append("attrs")
            elif "ok" in io:
                bad.append("outcome")
            elif io["err"] != lean["err"]:
                bad.append("M.errclass")
            # ---- the statement: values straight from NumPy, axes from the statement
            if "ok" in io:
                names = list(a.dims)
                red = resolve_dims(c["axis"], names)
                npax = None if red is None else (names.index(red[0]) if len(red) == 1 else tuple(names.index(d) for d in red))
                with np.errstate(all="ignore"), warnings.catch_warnings():
                    warnings.simplefilter("ignore")
                    want = np.percentile(a.values, pcts, axis=npax)
                keep = [d for d in names if d not in (red or names)]
                got = io["ok"]
                many = not np.isscalar(levels)
                newname = c.get("newaxis") or ((",".join(red) if red else "") + ("_quantile" if isq else "_percentile"))
                wd = ([newname] if many else []) + keep
                if many and red and len(red) > 1 and "newaxis" not in c and len(got["dims"]) == len(wd):
                    wd[0] = got["dims"][0]       # (how the percentile dimension of several dimensions is named is not stated)
                if got["dims"] != wd:
                    prop_bad.append("dims")
                if got["scalar"] != (not wd):
                    prop_bad.append("scalar")
                if [rnd(v, "mean") for v in np.asarray(want, dtype=float).reshape(-1)] != [rnd(v, "mean") for v in (got["raw"] or [])]:
                    prop_bad.append("values:numpy")
                if not got["scalar"] and got["dims"] == wd:
                    if got["shape"] != list(np.shape(want)):
                        prop_bad.append("shape")
                    in_axes = {x["name"]: x for x in io["input"]["axes"]}
                    for x in got["axes"][1 if many else 0:]:
                        if x["labels"] != in_axes[x["name"]]["labels"]:
                            prop_bad.append("axes.labels")
                        if x["attrs"] != in_axes[x["name"]]["attrs"]:
                            prop_bad.append("axes.attrs")
                    if many:
                        # NumPy returns the percentiles in the order requested: slice k is labelled pct[k]
                        want_l = [float(q) for q in levels]
                        got_l = [float(Fraction(l[1], l[2])) if l[0] == "n" else None for l in got["axes"][0]["labels"]]
                        if got_l != want_l:
                            prop_bad.append("axes.labels:percentile")
                    if got["attrs"] != io["input"]["attrs"] and not (TODO_DEFECT_PCT_ATTRS and io["input"]["attrs"]):
                        prop_bad.append("attrs")
            elif "ok" in lean:
                prop_bad.append("outcome:" + io["err"])
            if io.get("operand_modified"):
                prop_bad.append("operand_modified")
            if not bad and not prop_bad:
                return None
            return {"kind": "P" if prop_bad else "M", "differs": sorted(set(bad + prop_bad)), "msg": io.get("msg")}
        f = expected_red(c["fn"], c["skipna"])
        if "ok" in lean:
            env = core.CellEnv([a.values], red=f)
            lo = lean["ok"]
            if "scalar" in lo:
                lvals = [rnd(env.ev(lo["scalar"]), c["fn"])]
                ldims, laxes = [], []
            else:
                lvals = [rnd(env.ev(x), c["fn"]) for x in lo["cells"]]
                ldims, laxes = lo["dims"], lo["axes"]
            if "err" in io:
                bad.append("outcome")
            else:
                got = io["ok"]
                gvals = [rnd(v, c["fn"]) for v in got["raw"]] if got["raw"] is not None else got["values"]
                if got["dims"] != ldims:
                    bad.append("dims")
                if [(x["name"], x["labels"]) for x in got["axes"]] != [(x["name"], x["labels"]) for x in laxes]:
                    bad.append("axes")
                elif [x["attrs"] for x in got["axes"]] != [x.get("attrs", []) for x in laxes]:
                    bad.append("axes.attrs")
                if differ(gvals, lvals):
                    bad.append("values")
                if not got["scalar"] and "scalar" not in lo and got["attrs"] != lo["attrs"]:
                    bad.append("attrs")
        else:
            if "ok" in io:
                bad.append("outcome")
            elif io["err"] != lean["err"]:
                bad.append("M.errclass")
        if "ok" in io:
            got = io["ok"]
            want, keep = self.expected_numpy(c, a)
            gvals = [rnd(v, c["fn"]) for v in got["raw"]] if got["raw"] is not None else got["values"]
            if differ(gvals, [rnd(v, c["fn"]) for v in want]):
                prop_bad.append("values:numpy")
            if got["dims"] != keep:
                prop_bad.append("dims:remaining")
            else:
                in_axes = {x["name"]: x for x in io["input"]["axes"]}
                for x in got["axes"]:
                    if x["labels"] != in_axes[x["name"]]["labels"]:
                        prop_bad.append("axes.labels")
                    if x["attrs"] != in_axes[x["name"]]["attrs"]:
                        prop_bad.append("axes.attrs")      # a remaining axis is the input's axis, metadata included
            if not got["scalar"] and got["attrs"] != io["input"]["attrs"]:
                prop_bad.append("attrs")
            if c["axis"] is None and not got["scalar"]:
                prop_bad.append("scalar")
        elif "ok" in lean:
            prop_bad.append("outcome:" + io["err"])
        if io.get("operand_modified"):
            prop_bad.append("operand_modified")
        if not bad and not prop_bad:
            return None
        return {"kind": "P" if prop_bad else "M", "differs": sorted(set(bad + prop_bad)), "msg": io.get("msg")}

    def known(self, c, io, ans, mm, open_findings):
        ids = {f["id"] for f in open_findings}
        if "K07" in ids and c.get("fn") in ("any", "all") and c.get("skipna") and c["array"].get("nan_at") \
                and set(mm["differs"]) <= {"values", "values:numpy"} and "ok" in io:
            # only result cells whose whole slice is NaN may differ
            a = core.build_array(c["array"], 0)
            want, _ = self.expected_numpy(c, a)
            c2 = dict(c, fn="min", skipna=False)
            allnan = [bool(np.all(np.isnan(row))) for row in self.fibres(c, a)]
            got = io["ok"]["raw"]
            if got is not None and len(got) == len(want) and all(
                    (rnd(g, c["fn"]) == rnd(w, c["fn"])) or an for g, w, an in zip(got, want, allnan)):
                return "K07"
        return None

    def fibres(self, c, a, with_keep=False):
        """the slices reduced to one result cell each (row-major over the remaining dimensions, which keep their
        original order), whatever the spelling of the axis"""
        vals = a.values
        names = list(a.dims)
        red = resolve_dims(c["axis"], names)
        if red is None:
            rows, keep = [vals.reshape(-1)], []
        else:
            keep = [d for d in names if d not in red]
            perm = [names.index(d) for d in keep] + [names.index(d) for d in red]
            v = vals.transpose(perm)
            kshape = v.shape[:len(keep)]
            rows = list(v.reshape(int(np.prod(kshape)) if kshape else 1, -1))
        return (rows, keep) if with_keep else rows

    def nontrivial(self, c):
        if c["op"] == "redx":
            return len(c["xvals"]) >= 2
        return len(c["array"]["axes"]) >= 2 or bool(c["array"].get("nan_at"))

    def features(self, c, io):
        if c["op"] == "redx":
            return c08red.features(c, io)
        ax = c["axis"]
        f = {"outcome": "err:" + io["err"] if "err" in io else "ok", "op": c["op"], "fn": c.get("fn"), "skipna": c.get("skipna"),
             "rank": len(c["array"]["axes"]), "vkind": c["array"]["vkind"], "nan": bool(c["array"].get("nan_at")),
             "axis": "none" if ax is None else ("tuple" if ax[0] == "many" else ax[0]),
             "axis_attrs": any(x.get("attrs_py") for x in c["array"]["axes"])}
        if ax is not None and ax[0] == "many":
            kinds = {("name" if k[0] == "name" else ("neg" if k[1] < 0 else "pos")) for k in ax[1]}
            f["tuple_elems"] = "mixed" if len(kinds) > 1 else kinds.pop()
            f["tuple_len"] = "one" if len(ax[1]) == 1 else ("all" if len(ax[1]) == len(c["array"]["axes"]) else "some")
            f["tuple_as"] = "list" if len(ax) > 2 else "tuple"
        if c["op"] == "reduce":
            sp = c.get("spell") or {"axis": "kw", "skipna": "kw"}
            f["spell"] = "axis:%s skipna:%s" % (sp["axis"], sp["skipna"])
        else:
            lv = c["q"] if c["op"] == "quantile" else c["pct"]
            f["pct"] = ("scalar" if np.isscalar(lv) else c.get("pct_as", c.get("q_as", "list")))
            f["pct_kind"] = pct_kind([lv] if np.isscalar(lv) else lv)
            f["lean_compared"] = True
            f["pct_axis"] = "default" if not c.get("axis_given", True) else f["axis"]
            f["newaxis"] = "newaxis" in c
            f["array_attrs"] = bool(c["array"].get("attrs_py"))
        return f

    def size(self, c):
        return sum(len(a["labels"]) for a in c["array"]["axes"]) + 5 * len(c["array"]["axes"])

    def snippet(self, c):
        return ("import sys; sys.path.insert(0, '/verif/harness'); import json, core; from props.c08 import PROP; "
                "case = json.load(open(REPLAY))['case']; print(PROP.impl(case))")


PROP = C08()

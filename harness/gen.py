"""Structured generators shared by the property plugins.  Every random choice comes from the one
`random.Random` instance handed in by run.py."""
import itertools
from fractions import Fraction
import core

DIMS = ["x", "y", "z", "w"]
STRS = ["a", "b", "c", "d", "e", "f", "g", "h"]


def labels_of_kind(rng, kind, n, order=None, universe=None):
    """n unique labels of a kind in a given stored order (encoded)"""
    if kind == "i":
        pool = universe or list(range(-2, 12))
        vals = rng.sample(pool, n)
    elif kind == "f":
        pool = universe or [Fraction(k, 4) for k in range(-6, 40)]
        vals = rng.sample(pool, n)
    else:
        pool = universe or STRS
        vals = rng.sample(pool, n)
    order = order or rng.choice(["inc", "dec", "shuf"])
    if order == "inc":
        vals = sorted(vals)
    elif order == "dec":
        vals = sorted(vals, reverse=True)
    else:
        rng.shuffle(vals)
    return [enc(v) for v in vals], order


def enc(v):
    if isinstance(v, Fraction):
        return ["n", v.numerator, v.denominator]
    return core.enc_label(v)


def rand_axis(rng, name, kind=None, n=None, order=None, maxn=4, minn=0):
    kind = kind or rng.choice(["i", "f", "O"])
    n = rng.randint(minn, maxn) if n is None else n
    labels, order = labels_of_kind(rng, kind, n, order)
    return {"name": name, "kind": kind, "labels": labels, "_order": order}


def rand_array(rng, rank=None, maxrank=4, maxn=4, minn=0, vkind=None, dims=None, kinds=None):
    rank = rng.randint(0, maxrank) if rank is None else rank
    dims = dims or rng.sample(DIMS, rank)
    axes = [rand_axis(rng, d, maxn=maxn, minn=minn, kind=(kinds[i] if kinds else None)) for i, d in enumerate(dims)]
    return {"axes": axes, "vkind": vkind or rng.choice(["f", "f", "i"])}


def dtype_variants(rng, arr, p=0.3):
    """representation variants that do not change the logical array: narrower / unsigned label dtypes,
    float32 / int32 values, Fortran memory order (recorded as plain fields of the case)"""
    for ax in arr["axes"]:
        if ax["kind"] == "i" and rng.random() < p:
            ax["ldtype"] = rng.choice(["uint8", "uint16", "int32", "uint64"])
        elif ax["kind"] == "f" and rng.random() < p:
            ax["ldtype"] = "float32"
    if arr.get("vkind") == "f" and rng.random() < p:
        arr["vdtype"] = "float32"
    elif arr.get("vkind") == "i" and rng.random() < p:
        arr["vdtype"] = "int32"
    if len(arr["axes"]) >= 2 and rng.random() < p:
        arr["order"] = "F"
    return arr


def absent_label(rng, ax, frac=False):
    """a label of the axis' kind that is not on the axis"""
    present = {tuple(l) for l in ax["labels"]}
    if ax["kind"] == "i":
        cands = [enc(v) for v in range(-5, 15)]
        if frac and ax["labels"] and rng.random() < 0.3:
            # a non-integral request next to a stored integer label (must not be truncated onto it)
            b = rng.choice(ax["labels"])
            return enc(Fraction(b[1], b[2]) + rng.choice([Fraction(1, 2), Fraction(1, 4), Fraction(-1, 4), Fraction(-1, 2)]))
    elif ax["kind"] == "f":
        cands = [enc(Fraction(k, 8)) for k in range(-20, 90)]
        if frac and ax["labels"] and rng.random() < 0.25:
            # a request a hair away from a stored label (well inside np.isclose's default tolerance): still absent
            b = rng.choice(ax["labels"])
            v = Fraction(b[1], b[2]) + rng.choice([1, -1]) * Fraction(1, 2 ** 20)
            if tuple(enc(v)) not in present:
                return enc(v)
    else:
        cands = [enc(s) for s in STRS + ["zz", "A", ""]]
    cands = [c for c in cands if tuple(c) not in present]
    return rng.choice(cands)


def clean(o):
    """drop private generator annotations"""
    if isinstance(o, dict):
        return {k: clean(v) for k, v in o.items() if not k.startswith("_")}
    if isinstance(o, list):
        return [clean(v) for v in o]
    return o

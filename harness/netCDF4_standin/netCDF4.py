"""Stand-in for the subset of the netCDF4-python API that dimarray/io/nc.py uses (DESIGN.md appendix E).

netCDF4 / libnetcdf are not installed in the sandbox and cannot be.  This module is a file-backed
model of the library: a Dataset is loaded from / saved to ONE file (a pickle of plain dicts and
ndarrays) on close().  Anything dimarray does not use raises NotImplementedError so that an
unmodelled call is loud, not silently wrong.  Its fidelity to the real library is an ASSUMPTION of
the C19 (netCDF half) and C20 checks, stated in their evidence.
"""
import os, pickle, collections
import numpy as np

__version__ = "standin-1"
_OPEN = {}


def _default_fill(dtype):
    if dtype is str:
        return ""
    dt = np.dtype(dtype)
    if dt.kind == "f":
        return np.nan          # (real netCDF4: 9.97e36 shown as masked; dimarray turns masked into NaN)
    if dt.kind in "iu":
        return np.iinfo(dt).min + 1 if dt.kind == "i" else np.iinfo(dt).max
    if dt.kind == "b":
        return False
    return 0


class Dimension(object):
    def __init__(self, name, size):
        self.name = name
        self._unlimited = size is None
        self._size = 0 if size is None else int(size)

    def __len__(self):
        return self._size

    def isunlimited(self):
        return self._unlimited

    @property
    def size(self):
        return self._size


class _Attrs(object):
    """ncattr behaviour shared by datasets and variables"""
    def _attrs(self):
        return self.__dict__["_ncattrs"]

    def setncattr(self, name, value):
        if isinstance(value, (bool, np.bool_)):
            raise TypeError("illegal data type for attribute %r: bool" % name)
        if isinstance(value, str):
            v = value
        elif isinstance(value, (int, float, np.integer, np.floating)):
            v = np.asarray(value)[()]
        elif isinstance(value, (list, tuple, np.ndarray)):
            arr = np.asarray(value)
            if arr.dtype.kind in "OUS" and arr.dtype.kind != "O" and arr.ndim == 1:
                v = [str(x) for x in arr.tolist()]
            elif arr.dtype.kind in "ifu" and arr.ndim <= 1:
                v = arr.copy()
            else:
                raise TypeError("illegal data type for attribute %r: %r" % (name, arr.dtype))
        else:
            raise TypeError("illegal data type for attribute %r: %s" % (name, type(value).__name__))
        self._attrs()[name] = v

    def getncattr(self, name):
        v = self._attrs()[name]
        if isinstance(v, np.ndarray):
            if v.ndim == 1 and v.size == 1:
                return v[0]
            return v.copy()
        return v

    def delncattr(self, name):
        del self._attrs()[name]

    def ncattrs(self):
        return list(self._attrs().keys())


class Variable(_Attrs):
    def __init__(self, ds, name, datatype, dimensions, fill_value=None):
        d = self.__dict__
        d["_ds"] = ds
        d["_name"] = name
        d["_ncattrs"] = collections.OrderedDict()
        d["dimensions"] = tuple(dimensions)
        if datatype is str or datatype == "str" or (isinstance(datatype, np.dtype) and datatype.kind in "OUS"):
            d["dtype"] = str
            d["_npdtype"] = np.dtype(object)
        else:
            d["dtype"] = np.dtype(datatype)
            d["_npdtype"] = np.dtype(datatype)
        d["_fill"] = _default_fill(d["dtype"]) if fill_value is None else fill_value
        shape = tuple(len(ds.dimensions[dn]) for dn in self.dimensions)
        data = np.empty(shape, dtype=d["_npdtype"])
        data[...] = d["_fill"]
        d["_data"] = data

    # ---- attribute access for ncattrs
    def __getattr__(self, name):
        if name.startswith("__"):
            raise AttributeError(name)
        a = self.__dict__.get("_ncattrs", {})
        if name in a:
            return self.getncattr(name)
        raise AttributeError("NetCDF: Attribute not found: %s" % name)

    def __setattr__(self, name, value):
        if name.startswith("_") or name in ("dimensions", "dtype"):
            self.__dict__[name] = value
        else:
            self.setncattr(name, value)

    @property
    def name(self):
        return self.__dict__["_name"]

    def _sync_shape(self):
        """grow along unlimited dimensions that another variable extended"""
        d = self.__dict__
        want = tuple(len(d["_ds"].dimensions[dn]) for dn in d["dimensions"])
        cur = d["_data"].shape
        if want != cur:
            new = np.empty(want, dtype=d["_npdtype"])
            new[...] = d["_fill"]
            sl = tuple(slice(0, min(a, b)) for a, b in zip(cur, want))
            new[sl] = d["_data"][sl]
            d["_data"] = new

    @property
    def shape(self):
        self._sync_shape()
        return self.__dict__["_data"].shape

    @property
    def ndim(self):
        return len(self.__dict__["dimensions"])

    @property
    def size(self):
        self._sync_shape()
        return self.__dict__["_data"].size

    def __len__(self):
        if self.ndim == 0:
            raise TypeError("len() of unsized object")
        return self.shape[0]

    # ---- orthogonal indexing
    def _expand(self, key, for_write=False):
        if isinstance(key, list) and any(isinstance(k, slice) or k is Ellipsis for k in key):
            key = tuple(key)       # netCDF4 reads a list holding slices as one index per dimension
        if not isinstance(key, tuple):
            key = (key,)
        nd = self.ndim
        out = []
        seen = False
        for k in key:
            if k is Ellipsis:
                if seen:
                    raise IndexError("an index can only have a single ellipsis")
                seen = True
                out.extend([slice(None)] * (nd - (len(key) - 1)))
            else:
                out.append(k)
        if len(out) > nd:
            if nd == 0 and all(isinstance(k, slice) and k == slice(None) for k in out):
                return ()
            raise IndexError("too many indices for variable %s" % self.name)
        out.extend([slice(None)] * (nd - len(out)))
        return tuple(out)

    def _positions(self, key, for_write=False, value_shape=None):
        """per-dimension (positions list or int, drop flag); extends unlimited dimensions on write"""
        d = self.__dict__
        self._sync_shape()
        key = self._expand(key, for_write)
        if for_write and value_shape is not None:
            # netCDF4: an open-ended slice over an unlimited dimension grows it to hold the assigned data
            kept = [i for i, k in enumerate(key) if not isinstance(k, (int, np.integer))]
            if len(value_shape) == len(kept):
                for j, i in enumerate(kept):
                    k, dn = key[i], d["dimensions"][i]
                    dim = d["_ds"].dimensions[dn]
                    if isinstance(k, slice) and k.stop is None and k.step in (None, 1) and dim.isunlimited():
                        start = k.start or 0
                        if start >= 0 and start + value_shape[j] > dim._size:
                            dim._size = start + value_shape[j]
                self._sync_shape()
        res = []
        for k, dn, n in zip(key, d["dimensions"], d["_data"].shape):
            dim = d["_ds"].dimensions[dn]
            if isinstance(k, (int, np.integer)):
                i = int(k)
                if i < 0:
                    i += n
                if i < 0 or i >= n:
                    if for_write and dim.isunlimited() and i >= n:
                        dim._size = i + 1
                    else:
                        raise IndexError("index %d out of range for dimension %s of size %d" % (k, dn, n))
                res.append((i, True))
            elif isinstance(k, slice):
                if for_write and dim.isunlimited() and k.stop is not None and k.stop > n:
                    dim._size = int(k.stop)
                    n = dim._size
                res.append((list(range(*k.indices(n))), False))
            else:
                arr = np.asarray(k)
                if arr.ndim == 0:
                    return self._positions(tuple(int(arr) if kk is k else kk for kk in key), for_write)
                if arr.ndim != 1:
                    raise IndexError("only 1-d sequences are valid orthogonal indices")
                if arr.dtype.kind == "b":
                    if arr.size != n:
                        raise IndexError("boolean index of length %d for dimension %s of size %d" % (arr.size, dn, n))
                    res.append((np.nonzero(arr)[0].tolist(), False))
                elif arr.dtype.kind in "iu" or arr.size == 0:
                    ps = []
                    for i in arr.astype(int).tolist():
                        j = i + n if i < 0 else i
                        if j < 0 or j >= n:
                            if for_write and dim.isunlimited() and j >= n:
                                dim._size = max(dim._size, j + 1)
                            else:
                                raise IndexError("index %d out of range for dimension %s of size %d" % (i, dn, n))
                        ps.append(j)
                    res.append((ps, False))
                else:
                    raise IndexError("invalid index of dtype %s" % arr.dtype)
        if for_write:
            self._sync_shape()
        return res

    def __getitem__(self, key):
        d = self.__dict__
        pos = self._positions(key)
        data = d["_data"]
        ix = np.ix_(*[[p] if drop else p for p, drop in pos]) if pos else ()
        out = data[ix] if pos else data[()]
        if pos:
            out = out.reshape([len(p) for p, drop in pos if not drop])
        out = np.array(out, dtype=d["_npdtype"], copy=True)
        if d["dtype"] is str and pos and out.ndim == 0:
            return str(out.item())      # netCDF4 hands out a Python str for ONE ELEMENT of a variable-length string variable
        return out

    def __setitem__(self, key, value):
        d = self.__dict__
        if d["_ds"]._mode == "r":
            raise RuntimeError("NetCDF: Write to read only")
        if np.ma.isMaskedArray(value):
            value = value.filled(d["_fill"])
        if d["dtype"] is str:
            value = np.asarray(value, dtype=object)
        else:
            value = np.asarray(value)
            if value.dtype.kind in "OUS":
                raise TypeError("cannot write %s data into a numeric variable" % value.dtype)
        pos = self._positions(key, for_write=True, value_shape=value.shape)
        data = d["_data"]
        if not pos:
            data[()] = value
            return
        shape = [len(p) for p, drop in pos if not drop]
        value = np.broadcast_to(value, shape) if value.shape != tuple(shape) else value
        full = value.reshape([1 if drop else len(p) for p, drop in pos])
        ix = np.ix_(*[[p] if drop else p for p, drop in pos])
        data[ix] = full

    def set_auto_mask(self, flag):
        pass

    def set_auto_maskandscale(self, flag):
        pass


class Dataset(_Attrs):
    def __init__(self, filename, mode="r", clobber=True, diskless=False, persist=False, format="NETCDF4", **kwargs):
        d = self.__dict__
        d["_path"] = filename
        d["_mode"] = mode
        d["_ncattrs"] = collections.OrderedDict()
        d["dimensions"] = collections.OrderedDict()
        d["variables"] = collections.OrderedDict()
        d["file_format"] = format
        d["_closed"] = False
        if mode not in ("r", "w", "a", "r+"):
            raise ValueError("mode must be 'r', 'w', 'a' or 'r+', got %r" % mode)
        exists = os.path.exists(filename)
        if mode == "w":
            if exists and not clobber:
                raise RuntimeError("NetCDF: File exists && NC_NOCLOBBER: %s" % filename)
        else:
            if not exists:
                raise FileNotFoundError("No such file or directory: %r" % filename)
            with open(filename, "rb") as f:
                state = pickle.load(f)
            d["file_format"] = state["format"]
            for name, (size, unlimited) in state["dims"].items():
                dim = Dimension(name, None if unlimited else size)
                dim._size = size
                d["dimensions"][name] = dim
            for name, v in state["vars"].items():
                var = Variable(self, name, v["dtype"], v["dims"], v["fill"])
                var.__dict__["_data"] = v["data"]
                var.__dict__["_ncattrs"] = v["attrs"]
                d["variables"][name] = var
            d["_ncattrs"] = state["attrs"]

    def __setattr__(self, name, value):
        if name.startswith("_") or name in self.__dict__:
            self.__dict__[name] = value
        else:
            self.setncattr(name, value)

    def __getattr__(self, name):
        if name.startswith("__"):
            raise AttributeError(name)
        a = self.__dict__.get("_ncattrs", {})
        if name in a:
            return self.getncattr(name)
        raise AttributeError("NetCDF: Attribute not found: %s" % name)

    def _check_write(self):
        if self._mode == "r":
            raise RuntimeError("NetCDF: Write to read only")
        if self._closed:
            raise RuntimeError("NetCDF: Not a valid ID")

    def createDimension(self, name, size=None):
        self._check_write()
        if name in self.dimensions:
            raise RuntimeError("NetCDF: String match to name in use: %s" % name)
        self.dimensions[name] = Dimension(name, size)
        return self.dimensions[name]

    def createVariable(self, varname, datatype, dimensions=(), fill_value=None, zlib=False, complevel=4, **kwargs):
        self._check_write()
        if kwargs:
            unknown = set(kwargs) - {"shuffle", "fletcher32", "contiguous", "chunksizes", "endian", "least_significant_digit", "compression"}
            if unknown:
                raise NotImplementedError("createVariable keyword(s) not modelled: %s" % sorted(unknown))
        if isinstance(dimensions, str):
            dimensions = (dimensions,)
        if varname in self.variables:
            raise RuntimeError("NetCDF: String match to name in use: %s" % varname)
        for dn in dimensions:
            if dn not in self.dimensions:
                raise ValueError("cannot find dimension %s in this group or parent groups" % dn)
        if self.file_format.startswith("NETCDF3"):
            if datatype is str or (not isinstance(datatype, type) and np.dtype(datatype).kind in "OUS"):
                raise ValueError("variable-length strings are only supported in NETCDF4 files")
            if np.dtype(datatype) == np.dtype("int64"):
                raise ValueError("int64 is not supported in NETCDF3 files")
        var = Variable(self, varname, datatype, dimensions, fill_value)
        self.variables[varname] = var
        return var

    def renameVariable(self, oldname, newname):
        self._check_write()
        items = [(newname if k == oldname else k, v) for k, v in self.variables.items()]
        self.variables[oldname].__dict__["_name"] = newname
        self.variables.clear()
        self.variables.update(items)

    def renameDimension(self, oldname, newname):
        self._check_write()
        items = [(newname if k == oldname else k, v) for k, v in self.dimensions.items()]
        self.dimensions[oldname].name = newname
        self.dimensions.clear()
        self.dimensions.update(items)
        for v in self.variables.values():
            v.__dict__["dimensions"] = tuple(newname if x == oldname else x for x in v.dimensions)

    def sync(self):
        self._save()

    def _save(self):
        if self._mode == "r":
            return
        for v in self.variables.values():
            v._sync_shape()
        state = {"format": self.file_format,
                 "dims": collections.OrderedDict((k, (len(d), d.isunlimited())) for k, d in self.dimensions.items()),
                 "vars": collections.OrderedDict((k, {"dtype": v.dtype if v.dtype is str else np.dtype(v.dtype).str, "dims": v.dimensions,
                                                      "fill": v.__dict__["_fill"], "data": v.__dict__["_data"], "attrs": v.__dict__["_ncattrs"]})
                                                 for k, v in self.variables.items()),
                 "attrs": self.__dict__["_ncattrs"]}
        tmp = self._path + ".tmp"
        with open(tmp, "wb") as f:
            pickle.dump(state, f)
        os.replace(tmp, self._path)

    def close(self):
        if not self._closed:
            self._save()
            self.__dict__["_closed"] = True

    def isopen(self):
        return not self._closed

    def __enter__(self):
        return self

    def __exit__(self, *a):
        self.close()

    def __del__(self):
        pass

"""Operation steps shared by several property plugins: real execution of one step on a real array,
and a light simulation of dims / sizes used by the generators to build valid chains."""
from collections import OrderedDict
import numpy as np
import core
from core import da, Axis, DimArray


def key_py(k):
    return k[1]


def apply_step(a, st):
    """perform one step of a chain on the real array"""
    fn = st["fn"]
    if fn == "transpose":
        if st.get("dims") is None:
            return a.T if st.get("T") else a.transpose()
        ds = [key_py(k) for k in st["dims"]]
        how = st.get("how", "list")
        if how == "varargs":
            return a.transpose(*ds)
        if how == "tuple":
            return a.transpose(tuple(ds))
        return a.transpose(ds)
    if fn == "swapaxes":
        return a.swapaxes(key_py(st["a1"]), key_py(st["a2"]))
    if fn == "rollaxis":
        return a.rollaxis(key_py(st["axis"]), st.get("start", 0))
    if fn == "newaxis":
        kw = {}
        if st.get("values") is not None:
            v = st["values"]
            kw["values"] = core.label_array(v["labels"], v["kind"])
        return a.newaxis(st["name"], pos=st.get("pos", 0), **kw)
    if fn == "squeeze":
        return a.squeeze() if st.get("axis") is None else a.squeeze(key_py(st["axis"]))
    if fn == "repeat":
        v = st["values"]
        if st.get("as_axis"):
            return a.repeat(Axis(core.label_array(v["labels"], v["kind"]), v["name"]))
        return a.repeat(core.label_array(v["labels"], v["kind"]), axis=key_py(st["axis"]))
    if fn == "broadcast":
        axes = [core.build_axis(t) for t in st["target"]]
        how = st.get("how", "list")
        if how == "odict":
            return a.broadcast(OrderedDict((ax.name, ax.values) for ax in axes))
        if how == "dimarray":
            return a.broadcast(DimArray(np.zeros([ax.size for ax in axes]), axes=axes))
        return a.broadcast(axes)
    if fn == "flatten":
        ds = st["dims"]
        how = st.get("how", "tuple")
        arg = tuple(ds) if how == "tuple" else (list(ds) if how == "list" else set(ds))
        kw = {}
        if st.get("insert") is not None:
            kw["insert"] = st["insert"]
        if how == "varargs":
            return a.flatten(*ds, **kw)
        return a.flatten(arg, **kw)
    if fn == "unflatten":
        return a.unflatten()
    if fn == "reshape":
        nd = st["newdims"]
        return a.reshape(*nd) if st.get("how") == "varargs" else a.reshape(list(nd))
    if fn == "sort_axis":
        return a.sort_axis(axis=key_py(st["axis"]))
    if fn == "reindex":
        return a.reindex_axis(core.label_array(st["labels"], st["newkind"]), axis=key_py(st["axis"]))
    if fn == "take":
        from props import c01
        c = {"array": st["_array"], "index": st["index"], "spelling": st.get("spelling", "getitem"), "mode": "label",
             "option": "label", "as_array": False, "bare": False}
        return c01.call_take(a, c)
    raise ValueError("unknown step %r" % fn)


def lean_step(st):
    return {k: v for k, v in st.items() if not k.startswith("_") and k not in ("how", "T", "as_axis", "spelling")}


class Sim:
    """dims / sizes / labels of the current array (for generators only)"""
    def __init__(self, arr):
        self.axes = [dict(name=a["name"], kind=a["kind"], labels=list(a["labels"]), multi=None) for a in arr["axes"]]

    @property
    def dims(self):
        return [a["name"] for a in self.axes]

    def key(self, rng, d):
        """refer to dimension number d by name or by position"""
        r = rng.random()
        if r < 0.5:
            return ["name", self.axes[d]["name"]]
        if r < 0.85:
            return ["pos", d]
        return ["pos", d - len(self.axes)]

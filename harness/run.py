"""Generic check runner: proof stage (build + axiom audit) and correspondence stage
(implementation vs Lean mirror vs Lean spec) for one property.

usage: run.py <ID> [--tier quick|thorough] [--replay PATH]
exit 0: property held on everything explored; 1: VIOLATION line printed; 2: infrastructure.
"""
import os, sys, json, time, random, importlib, traceback, collections

sys.path.insert(0, os.path.dirname(os.path.abspath(__file__)))
import core
from core import VERIF, WORK, InfraError


def load_prop(pid):
    mod = importlib.import_module("props.%s" % pid.lower())
    return mod.PROP


def jdump(o):
    return json.dumps(o, sort_keys=True, separators=(",", ":"), default=str)


def proof_stage(prop, ev, tier="quick"):
    """build the Lean project and audit the property theorems; returns list of problems"""
    problems = []
    hits = core.grep_forbidden()
    ev["forbidden_tokens_found"] = hits
    if hits:
        problems.append("forbidden tokens in Lean sources: %s" % hits[:5])
    pre = getattr(prop, "pre_build", None)
    table_info = None
    if pre:
        table_info = pre()     # regenerates Gen/Table<ID>.lean from the implementation
        ev["tabulated"] = table_info.get("summary") if table_info else None
    ok, log = core.lake_build(["DimModel"])
    if not ok:
        ev["build_log_tail"] = log[-3000:]
        problems.append("lake build failed")
        return problems, log, table_info
    res, out, rc = core.audit(prop.id, prop.theorems)
    ev["theorems"] = prop.theorems
    ev["axioms"] = res
    missing = [t for t in prop.theorems if t not in res and ("DimModel." + t) not in res]
    if missing or rc != 0:
        problems.append("audit failed for %s: %s" % (missing, out[-1500:]))
    for t, ax in res.items():
        extra = set(ax) - core.STD_AXIOMS
        if extra:
            problems.append("theorem %s depends on non-standard axioms %s" % (t, sorted(extra)))
    if tier == "thorough":
        # independent re-check of the compiled property module (and everything it imports) by leanchecker
        import subprocess
        try:
            p = subprocess.run(["lake", "env", "leanchecker", "DimModel.Props.%s" % prop.id], cwd=core.LEAN, capture_output=True,
                               text=True, timeout=3000)
            ev["leanchecker"] = {"module": "DimModel.Props.%s" % prop.id, "exit": p.returncode, "tail": (p.stdout + p.stderr)[-300:]}
            if p.returncode != 0:
                problems.append("leanchecker rejected DimModel.Props.%s: %s" % (prop.id, (p.stdout + p.stderr)[-800:]))
        except subprocess.TimeoutExpired:
            ev["leanchecker"] = {"module": "DimModel.Props.%s" % prop.id, "exit": None, "tail": "timeout"}
    ev["obligations"] = len(res) if not missing else len(res) + len(missing)      # every theorem of Props/<ID>.lean
    ev["discharged"] = len(res) if not problems else 0
    return problems, log, table_info


def main(argv):
    pid = argv[1]
    tier = os.environ.get("VERIF_TIER", "quick")
    replay = None
    i = 2
    while i < len(argv):
        if argv[i] == "--tier":
            tier = argv[i + 1]; i += 2
        elif argv[i] == "--replay":
            replay = argv[i + 1]; i += 2
        else:
            i += 1
    seed = int(os.environ.get("VERIF_SEED", "0"))
    t0 = time.time()
    prop = load_prop(pid)
    cov = {"checker_cmd": "cd /verif/lean && lake build DimModel && lake env lean <Audit: #print axioms of every theorem of Props/%s.lean>" % pid,
           "trusted_base": prop.trusted_base}
    violations = []       # (kind, case, detail)
    known_hits = collections.Counter()
    exit_code = 0

    # ---------------- proof stage
    try:
        problems, log, table_info = proof_stage(prop, cov, tier)
    except Exception as e:
        print("INFRA: proof stage crashed: %s" % e)
        traceback.print_exc()
        return 2
    proof_broken = None
    if problems:
        # a decide over a table regenerated from the code may legitimately fail: that is a broken
        # proof obligation caused by the implementation; everything else is infrastructure
        if table_info and table_info.get("changed"):
            proof_broken = {"problems": problems, "table": table_info}
        else:
            print("INFRA: proof stage problems (not a violation):")
            for p in problems:
                print("  -", p)
            print(cov.get("build_log_tail", "")[-2000:])
            return 2

    # ---------------- correspondence stage
    rng = random.Random(seed)
    cases = []
    if replay:
        rp = json.load(open(replay))
        cases = [rp["case"]] if "case" in rp else rp.get("cases", [])
    else:
        cases = list(prop.corpus()) + list(prop.gen(rng, tier))
    findings = [f for f in core.load_findings() if f["property"] == pid or pid in f.get("also", [])]
    open_findings = [f for f in findings if f.get("status") == "open"]
    if not replay:
        for f in open_findings:
            if "witness" in f and f["property"] == pid:
                cases.insert(0, dict(f["witness"], _finding=f["id"]))

    try:
        impl_obs = []
        reqs = []
        for n, c in enumerate(cases):
            try:
                impl_obs.append(prop.impl(c))
            except InfraError:
                raise
            except Exception as e:
                # the harness could not even observe the implementation on this case (e.g. an operation returned
                # something that is not an array any more): a broken correspondence, reported with the case
                impl_obs.append({"err": "other", "msg": "%s: %s" % (type(e).__name__, e), "_unobservable": traceback.format_exc()[-1500:]})
            r = prop.request(c)
            r["id"] = n
            reqs.append(r)
        answers = core.run_driver(reqs, tag=pid) if not proof_broken else [None] * len(reqs)
    except InfraError as e:
        print("INFRA:", e)
        return 2
    except Exception as e:
        print("INFRA: harness crashed: %s" % e)
        traceback.print_exc()
        return 2

    dist = collections.defaultdict(collections.Counter)
    distinct = set()
    nontrivial = set()
    branches = collections.Counter()
    mismatches = []
    samples = []
    pre_ok = 0
    for c, io, ans in zip(cases, impl_obs, answers):
        key = jdump({k: v for k, v in c.items() if not k.startswith("_")})
        distinct.add(key)
        if prop.nontrivial(c):
            nontrivial.add(key)
        if io.get("_unobservable"):
            mismatches.append((c, io, ans, {"kind": "M", "differs": ["implementation_not_observable"], "msg": io["msg"]}))
            continue
        for fk, fv in prop.features(c, io).items():
            dist[fk][str(fv)] += 1
        if ans is None:
            continue
        for b in ans.get("branches", []):
            branches[b] += 1
        if ans.get("pre", True):
            pre_ok += 1
        try:
            mm = prop.judge(c, io, ans)
        except Exception as e:
            # the comparison itself failed on what the implementation returned: broken correspondence
            mm = {"kind": "M", "differs": ["comparison_failed"], "msg": "%s: %s" % (type(e).__name__, e),
                  "trace": traceback.format_exc()[-1200:]}
        if len(samples) < 3 and mm is None and prop.nontrivial(c):
            samples.append({"case": c, "impl": _short(io), "lean": _short(ans)})
        if mm is not None:
            fid = c.get("_finding") or prop.known(c, io, ans, mm, open_findings)
            if fid:
                known_hits[fid] += 1
            else:
                mismatches.append((c, io, ans, mm))

    # findings whose witness no longer fails are reported (informational)
    for f in open_findings:
        if known_hits[f["id"]] > 0:
            print("KNOWN-FINDING: property=%s %s [%s] (%d generated cases in its class)" % (pid, f["what"], f["id"], known_hits[f["id"]]))
        elif f["property"] == pid:
            print("NOTE: open finding %s did not reproduce on this tree" % f["id"])

    os.makedirs(os.path.join(VERIF, "replays"), exist_ok=True)
    if proof_broken:
        # search for the failing row: the decidable predicate evaluated row by row
        bad = prop.table_failing_rows(proof_broken["table"])
        path = os.path.join(VERIF, "replays", "%s-%d-table.json" % (pid, seed))
        json.dump({"property": pid, "kind": "proof-obligation", "theorems": prop.theorems,
                   "problems": proof_broken["problems"], "failing_rows": bad,
                   "how": prop.table_replay_hint()}, open(path, "w"), indent=1, default=str)
        tail = "" if bad else " no-failing-input-found"
        print("VIOLATION property=%s replay=%s%s" % (pid, path, tail))
        exit_code = 1
    if mismatches:
        # prefer P-observable disagreements at inputs satisfying pre, smallest first
        mismatches.sort(key=lambda m: (0 if m[3]["kind"] == "P" else 1, prop.size(m[0])))
        c, io, ans, mm = mismatches[0]
        if mm["kind"] == "P":
            c, io, ans, mm = shrink(prop, c, io, ans, mm)
        path = os.path.join(VERIF, "replays", "%s-%d.json" % (pid, seed))
        json.dump({"property": pid, "kind": mm["kind"], "detail": mm, "case": c, "impl": io, "lean": ans,
                   "python": prop.snippet(c),
                   "n_disagreements": len(mismatches),
                   "broken": None if mm["kind"] == "P" else "correspondence impl vs Lib for op %s" % c.get("op")},
                  open(path, "w"), indent=1, default=str)
        tail = "" if mm["kind"] == "P" else " no-failing-input-found"
        print("VIOLATION property=%s replay=%s%s" % (pid, path, tail))
        print("  first disagreement:", json.dumps(mm, default=str)[:600])
        exit_code = 1

    # ---------------- evidence
    cov.update({
        "evaluations": len(cases),
        "distinct_nontrivial": len(nontrivial),
        "distinct": len(distinct),
        "traces_validated_against_impl": len(cases) - len(mismatches),
        "pre_satisfied": pre_ok,
        "rule": prop.rule,
        "samples": samples or [{"case": cases[0]}] if cases else [],
        "distribution": {k: dict(v) for k, v in dist.items()},
        "branches": dict(branches),
        "uncovered_branches": sorted(set(getattr(prop, "all_branches", [])) - set(branches)),
        "known_finding_hits": dict(known_hits),
        "mirror_source_hashes": core.source_hash(prop.mirrors()),
        "exhaustive": bool(getattr(prop, "exhaustive_tiers", {}).get(tier, False)),
        # inputs built by core.build_array: how many went through an "aged" construction (in-place history, derived by a
        # position slice / reversing slice of a queried array) instead of a direct one - see core.py
        "aged_construction": dict(core.AGED),
    })
    extra = getattr(prop, "extra_evidence", None)
    if extra:
        cov.update(extra())
    ev = {"property_id": pid, "tier": tier if tier in ("quick", "thorough") else "quick", "seed": seed,
          "level": "proof", "coverage": cov, "assumptions": prop.assumptions,
          "wall_s": round(time.time() - t0, 2), "violations": len(mismatches) + (1 if proof_broken else 0)}
    if not replay:
        evp = os.path.join(VERIF, "evidence", "%s.json" % pid)
        os.makedirs(os.path.dirname(evp), exist_ok=True)
        json.dump(ev, open(evp, "w"), indent=1, default=str)
        ok, msg = core.validate_evidence(evp)
        if not ok:
            print("INFRA: evidence file does not validate:", msg)
            return 2
    print("%s %s seed=%d: %d cases (%d distinct non-trivial), %d theorems audited, %d disagreements, %.1fs" % (
        pid, tier, seed, len(cases), len(nontrivial), cov.get("discharged", 0), len(mismatches), time.time() - t0))
    return exit_code


def _short(o, n=600):
    s = jdump(o)
    return json.loads(s) if len(s) <= n else s[:n] + "..."


def shrink(prop, c, io, ans, mm):
    """greedy shrinking with the property's own reducers while the P-disagreement persists"""
    reducers = getattr(prop, "reducers", None)
    if not reducers:
        return c, io, ans, mm
    improved = True
    budget = 200
    while improved and budget > 0:
        improved = False
        for cand in reducers(c):
            budget -= 1
            if budget <= 0:
                break
            try:
                io2 = prop.impl(cand)
                r = prop.request(cand); r["id"] = 0
                ans2 = core.run_driver([r], tag=prop.id + "s")[0]
                mm2 = prop.judge(cand, io2, ans2)
            except Exception:
                continue
            if mm2 is not None and mm2["kind"] == "P":
                c, io, ans, mm = cand, io2, ans2, mm2
                improved = True
                break
    return c, io, ans, mm


if __name__ == "__main__":
    try:
        sys.exit(main(sys.argv))
    except InfraError as e:
        print("INFRA:", e)
        sys.exit(2)

"""Shared machinery of the dimarray verification harness.

* canonical encoding of labels / axes / arrays (exact rationals for numbers)
* construction of real `dimarray` objects from case descriptions and observation of results
* evaluation of the symbolic cells the Lean driver answers with
* running the Lean driver (line protocol), building the lake project, auditing axioms
* evidence, replays, known findings, VIOLATION / KNOWN-FINDING lines

Run with /venv/bin/python; the tree under test is $VERIF_REPO (default /repo) and is put first
on sys.path so that the *working tree* is what gets imported.
"""
import os, sys, json, time, math, random, subprocess, fcntl, hashlib, traceback, warnings, inspect
from fractions import Fraction

VERIF = os.path.dirname(os.path.dirname(os.path.abspath(__file__)))
REPO = os.environ.get("VERIF_REPO", "/repo")
WORK = os.path.join(VERIF, ".work")
LEAN = os.path.join(VERIF, "lean")
os.makedirs(WORK, exist_ok=True)

# hooks guard (MANIFEST.hooks.guard); no source hook is needed today, the name is reserved
os.environ.setdefault("DIMARRAY_VERIF", "1")

if sys.path[0] != REPO:
    sys.path.insert(0, REPO)
# vendored stand-in for the netCDF4 package (absent from the sandbox)
_standin = os.path.join(VERIF, "harness", "netCDF4_standin")
if os.path.isdir(_standin) and _standin not in sys.path:
    sys.path.insert(1, _standin)
sys.setrecursionlimit(400)       # F5-style infinite recursions must fail fast
warnings.simplefilter("ignore")

import numpy as np
import dimarray as da
from dimarray import DimArray, Dataset, Axis
from dimarray.core.axes import MultiAxis, Axes

assert os.path.realpath(os.path.dirname(os.path.dirname(da.__file__))) == os.path.realpath(REPO), \
    "dimarray was not imported from the tree under test: %s" % da.__file__

# --------------------------------------------------------------------------------------------
# canonical encodings
# --------------------------------------------------------------------------------------------

def enc_label(v):
    """label -> JSON-able exact encoding"""
    if v is None:
        return ["N"]
    if isinstance(v, (bool, np.bool_)):
        return ["n", int(v), 1]
    if isinstance(v, (int, np.integer)):
        return ["n", int(v), 1]
    if isinstance(v, (float, np.floating)):
        if math.isnan(v) or math.isinf(v):
            return ["s", "<%r>" % float(v)]
        fr = Fraction(float(v))
        return ["n", fr.numerator, fr.denominator]
    if isinstance(v, (str, np.str_)):
        return ["s", str(v)]
    if isinstance(v, Fraction):
        return ["n", v.numerator, v.denominator]
    if isinstance(v, tuple):
        return ["t", [enc_label(x) for x in v]]
    return ["s", "<%s:%r>" % (type(v).__name__, v)]


def dec_label(e, kind="f"):
    """encoded label -> python value suitable for the given axis kind"""
    if e[0] == "N":
        return None
    if e[0] == "s":
        return e[1]
    if e[0] == "n":
        fr = Fraction(e[1], e[2])
        if kind == "i" and fr.denominator == 1:
            return int(fr)
        if kind == "f":
            return float(fr)
        if fr.denominator == 1:
            return int(fr)
        return float(fr)
    raise ValueError(e)


def ckind(k):
    """dtype kind as the model knows it (unsigned integers are integers)"""
    return "i" if k == "u" else k


def label_array(labels, kind, ldtype=None):
    """encoded labels -> numpy array of the given kind (never through the list constructor of
    DimArray, see env gotchas); `ldtype` asks for a narrower / unsigned dtype of the same kind when every
    label is exactly representable in it"""
    vals = [dec_label(l, kind) for l in labels]
    if kind == "i" and any(isinstance(v, float) for v in vals):
        kind = "f"          # a non-integral request next to integer labels: never truncated by the harness
    if kind == "i":
        out = np.array(vals, dtype=np.int64).reshape(len(vals))
        if ldtype and ldtype.startswith(("uint", "int")) and len(vals):
            info = np.iinfo(ldtype)
            if out.min() >= info.min and out.max() <= info.max:
                out = out.astype(ldtype)
        return out
    if kind == "f":
        out = np.array(vals, dtype=np.float64).reshape(len(vals))
        if ldtype == "float32" and len(vals) and np.all(out.astype(np.float32).astype(np.float64) == out):
            out = out.astype(np.float32)
        return out
    out = np.empty(len(vals), dtype=object)
    for i, v in enumerate(vals):
        out[i] = v
    return out


class AttrTokens:
    """metadata values are opaque tokens for the model"""
    def __init__(self):
        self.ids = {}
        self.vals = []

    def tok(self, v):
        # a stable token per value (independent of the order in which values are met)
        import zlib
        return zlib.crc32(repr(_attr_key(v)).encode())

    def enc(self, attrs):
        return [[str(k), self.tok(v)] for k, v in attrs.items()]


def _attr_key(v):
    if isinstance(v, np.ndarray):
        return ("nd", str(v.dtype), v.shape, tuple(v.ravel().tolist()))
    if isinstance(v, (list, tuple)):
        return (type(v).__name__, tuple(_attr_key(x) for x in v))
    if isinstance(v, dict):
        return ("dict", tuple(sorted((str(k), _attr_key(x)) for k, x in v.items())))
    if isinstance(v, float) and math.isnan(v):
        return ("nan",)
    return (type(v).__name__, repr(v))


EXC = [(IndexError, "index"), (KeyError, "key"), (ValueError, "value"), (TypeError, "type"),
       (AttributeError, "attribute"), (AssertionError, "assertion"), (RecursionError, "recursion")]


def exc_class(e):
    for cls, name in EXC:
        if isinstance(e, cls):
            return name
    return "other"


def guarded(fn):
    """run fn, map an exception to its class"""
    try:
        return {"ok": fn()}
    except RecursionError as e:
        return {"err": "recursion", "msg": "RecursionError"}
    except Exception as e:  # noqa
        return {"err": exc_class(e), "msg": "%s: %s" % (type(e).__name__, str(e)[:200])}


# --------------------------------------------------------------------------------------------
# building real objects
# --------------------------------------------------------------------------------------------

def make_values(shape, vkind, k=0, nan_at=()):
    """distinct values per cell so that 'which element went where' is observable"""
    n = int(np.prod(shape)) if len(shape) else 1
    if vkind == "f":
        v = (np.arange(n, dtype=np.float64) + 1.0) + 1000.0 * k + 0.25
        for i in nan_at:
            if i < n:
                v[i] = np.nan
    elif vkind == "i":
        v = np.arange(n, dtype=np.int64) + 1 + 1000 * k
    elif vkind == "b":
        v = (np.arange(n) % 2 == 0)
    elif vkind == "O":
        v = np.empty(n, dtype=object)
        for i in range(n):
            v[i] = "v%d_%d" % (k, i)
    else:
        raise ValueError(vkind)
    return v.reshape(shape)


def build_axis(ad, toks=None):
    ax = Axis(label_array(ad["labels"], ad["kind"], ad.get("ldtype")), ad["name"])
    for kv in ad.get("attrs_py", {}).items():
        ax.attrs[kv[0]] = kv[1]
    return ax


def build_array(ad, k=0, toks=None):
    """case description -> real DimArray (values are distinct per cell)"""
    axes = [build_axis(a) for a in ad["axes"]]
    shape = tuple(len(a["labels"]) for a in ad["axes"])
    vals = make_values(shape, ad.get("vkind", "f"), k, ad.get("nan_at", ()))
    if "values" in ad:
        vals = np.array(ad["values"], dtype={"f": float, "i": np.int64, "b": bool, "O": object}[ad.get("vkind", "f")]).reshape(shape)
    if ad.get("inf_at") and vals.dtype.kind == "f":
        for i, sgn in ad["inf_at"]:
            if i < vals.size:
                vals.reshape(-1)[i] = np.inf if sgn > 0 else -np.inf     # infinite (not missing) values
    if ad.get("vbase") and vals.dtype.kind == "i":
        vals = vals + int(ad["vbase"])          # large integers (not representable in single precision)
    vd = ad.get("vdtype")
    if vd and vals.dtype.kind in "if" and np.dtype(vd).kind == vals.dtype.kind and np.all(vals.astype(vd).astype(vals.dtype) == vals, where=~np.isnan(vals) if vals.dtype.kind == "f" else True):
        vals = vals.astype(vd)          # narrower dtype of the same kind (every value exactly representable)
    if ad.get("order") == "F" and vals.ndim >= 2:
        vals = np.asfortranarray(vals)  # Fortran-contiguous memory layout, same logical array
    a = None
    mode = _aged(ad)
    if mode == 1:
        a = _build_aged(axes, vals)
    elif mode == 2:
        a = _build_derived(axes, vals)
    elif mode == 3:
        a = _build_reversed(axes, vals)
    if a is None:
        a = DimArray(vals, axes=axes)
    for key, v in ad.get("attrs_py", {}).items():
        a.attrs[key] = v
    return a


# ---- "aged" construction (history-independence clause of C05 applied to every property's inputs) ------------------
# A share of the arrays the generators describe (decided by a hash of the description, so a replay rebuilds the same
# object) is not constructed directly: an array with OTHER labels (the target labels reversed) and OTHER values (no NaN)
# is built, queried in the ways that could populate lazily computed state (ordering flag, label lookups, label slices,
# sorting, reindexing, alignment, NaN-skipping reductions), then relabelled and overwritten IN PLACE - through the
# public setters - to the described state, and queried once more.  By the last clause of C05 such an object must answer
# every further operation like a freshly constructed one, so every oracle and every model comparison applies unchanged;
# a stale cache anywhere in the library makes the aged share of the stream disagree.  If the in-place route cannot reach
# exactly the described state (dtype of labels or values differs) the array is built directly instead.
AGED = {"built": 0, "aged": 0, "fallback": 0}


def _aged(ad):
    if os.environ.get("VERIF_AGE", "1") == "0" or ad.get("noage"):
        return False
    AGED["built"] += 1
    import zlib
    return {0: 1, 1: 2, 2: 3}.get(zlib.crc32(json.dumps(ad, sort_keys=True, default=str).encode()) % 5, 0)


def _same_state(a, axes, vals, layout=True):
    ok = (a.values.dtype == vals.dtype and a.values.shape == vals.shape
          and (not layout or (a.values.flags["C_CONTIGUOUS"] == vals.flags["C_CONTIGUOUS"]
                              and a.values.flags["F_CONTIGUOUS"] == vals.flags["F_CONTIGUOUS"])) and a.dims == tuple(x.name for x in axes)
          and all(type(p) is type(q) and (p == q or (p != p and q != q)) for p, q in zip(a.values.reshape(-1).tolist(), vals.reshape(-1).tolist())))
    for i, ax in enumerate(axes):
        got = a.axes[i].values
        ok = ok and type(a.axes[i]) is Axis and got.dtype == ax.values.dtype and got.shape == ax.values.shape and all(
            type(p) is type(q) and (p == q or (p != p and q != q)) for p, q in zip(got.tolist(), ax.values.tolist()))
        ok = ok and dict(a.axes[i].attrs) == dict(ax.attrs)
    return bool(ok)


def _build_reversed(axes, vals):
    """third route: the described array is the REVERSING position slice `B.ix[::-1]` of a queried array that holds the same
    data the other way round along its first dimension (the memory layout of the result - a view with a negative stride -
    is not part of what an array answers)"""
    try:
        if vals.ndim == 0:
            return None
        axes0 = []
        for i, ax in enumerate(axes):
            a0 = Axis(ax.values[::-1].copy() if i == 0 else ax.values.copy(), ax.name)
            a0.attrs.update(ax.attrs)
            axes0.append(a0)
        B = DimArray(vals[::-1].copy(), axes=axes0)
        _warm(B, True)
        a = B.ix[slice(None, None, -1)] if vals.ndim == 1 else B.ix[(slice(None, None, -1),) + (slice(None),) * (vals.ndim - 1)]
        if not isinstance(a, DimArray) or not _same_state(a, axes, vals, layout=False):
            AGED["fallback"] += 1
            return None
        AGED["reversed"] = AGED.get("reversed", 0) + 1
        return a
    except Exception:
        AGED["fallback"] += 1
        return None


def _build_derived(axes, vals):
    """second route: the described array is the leading POSITION SLICE of a larger array whose first axis carries one more
    label (chosen so that the longer axis is not monotonic where possible) and which has been queried before the slice
    is taken: state that a derived axis inherits from its parent (ordering flags, lookup tables) must not be stale."""
    try:
        if vals.ndim == 0 or not vals.flags["C_CONTIGUOUS"]:
            return None
        ax0 = axes[0]
        L = ax0.values
        kinds = set(type(x) for x in L.tolist())
        if L.dtype.kind in "iuf" and not np.isnan(L.astype(float)).any():
            cands = [L.min() - 1, L.max() + 1] if L.size else [0]
        elif L.dtype.kind == "O" and kinds == {str}:
            cands = ["!" + min(L.tolist()), "~" + max(L.tolist())]
        else:
            return None
        big = None
        for e in cands:
            Lb = np.empty(L.size + 1, dtype=L.dtype)
            Lb[:L.size] = L
            Lb[L.size] = e
            if Lb[L.size] != e or (L.size and (Lb[:L.size] == Lb[L.size]).any()):
                continue
            big = Lb
            d = np.diff(Lb.astype(float)) if L.dtype.kind in "iuf" else None
            mono = (d is not None and (np.all(d > 0) or np.all(d < 0))) or (d is None and (Lb.tolist() == sorted(Lb.tolist()) or Lb.tolist() == sorted(Lb.tolist(), reverse=True)))
            if not mono:
                break
        if big is None:
            return None
        vb = np.empty((vals.shape[0] + 1,) + vals.shape[1:], dtype=vals.dtype)
        vb[:vals.shape[0]] = vals
        vb[vals.shape[0]] = vals[-1] if vals.shape[0] else (0 if vals.dtype.kind != "O" else None)
        b0 = Axis(big, ax0.name)
        b0.attrs.update(ax0.attrs)
        rest = []
        for ax in axes[1:]:
            r = Axis(ax.values.copy(), ax.name)
            r.attrs.update(ax.attrs)
            rest.append(r)
        B = DimArray(vb, axes=[b0] + rest)
        _warm(B, True)
        a = B.ix[slice(0, vals.shape[0])] if vals.ndim == 1 else B.ix[(slice(0, vals.shape[0]),) + (slice(None),) * (vals.ndim - 1)]
        if not isinstance(a, DimArray) or not _same_state(a, axes, vals):
            AGED["fallback"] += 1
            return None
        AGED["derived"] = AGED.get("derived", 0) + 1
        return a
    except Exception:
        AGED["fallback"] += 1
        return None


def _warm(a, full):
    """queries only: none of them may change what the array answers later"""
    import warnings
    with warnings.catch_warnings():
        warnings.simplefilter("ignore")
        with np.errstate(all="ignore"):
            for i, ax in enumerate(a.axes):
                probes = [lambda: ax.is_monotonic()]
                if ax.size:
                    l0, l1 = ax.values[0], ax.values[-1]
                    probes += [lambda: ax.loc[l0], lambda: ax.loc[[l1, l0]], lambda: ax.loc[slice(l0, l1)],
                               lambda: ax.loc[slice(l1, l0)], lambda: a.take({ax.name: l1}), lambda: a.take({ax.name: slice(l0, None)})]
                if full:
                    probes += [lambda: a.sort_axis(axis=i), lambda: a.reindex_axis(ax.values[::-1].copy(), axis=i),
                               lambda: a.reindex_axis(ax.values[:1].copy(), axis=i, method="left") if ax.values.dtype.kind in "iuf" else None,
                               lambda: ax.union(ax[:1]) if ax.size else None,
                               lambda: a.sum(axis=i, skipna=True) if a.values.dtype.kind in "fiu" else None,
                               lambda: a.max(axis=i, skipna=True) if a.values.dtype.kind in "fiu" else None,
                               lambda: a.argmin() if a.values.dtype.kind in "fiu" and a.size else None,
                               lambda: a.dropna(axis=i) if a.values.dtype.kind == "f" else None,
                               lambda: a.interp_axis(ax.values[:1].astype(float), axis=i) if ax.values.dtype.kind in "iuf" and a.values.dtype.kind == "f" else None]
                for p in probes:
                    try:
                        p()
                    except Exception:
                        pass
            if full and a.ndim:
                for p in (lambda: a + a.take_axis([0], axis=0, indexing="position"), lambda: a.T, lambda: a.flatten(),
                          lambda: a.transpose(*a.dims[::-1]), lambda: a.swapaxes(a.dims[0], a.dims[-1]),
                          lambda: a.sum(axis=a.dims[-1]), lambda: a.squeeze(a.dims[0]), lambda: a.sort_axis(axis=a.dims[-1]),
                          lambda: a.reindex_axis(a.axes[-1].values[::-1].copy(), axis=a.dims[-1])):
                    try:
                        p()
                    except Exception:
                        pass


def _build_aged(axes, vals):
    try:
        if vals.ndim == 0:
            return None
        rev = (slice(None, None, -1),) * vals.ndim
        v0 = vals.copy(order="K")
        if v0.dtype.kind == "f":
            v0[~np.isfinite(v0)] = 0.5
        v0[...] = v0[rev].copy()
        axes0 = []
        names = [ax.name for ax in axes]
        names0 = names[1:] + names[:1]                       # the dimension names start out rotated
        for ax, nm in zip(axes, names0):
            L0 = ax.values[::-1].copy()
            try:
                srt = np.sort(ax.values)                      # (an unsorted target starts out sorted: ordering known to be "increasing")
                if srt.dtype == ax.values.dtype and not all(p == q for p, q in zip(srt.tolist(), ax.values.tolist())):
                    L0 = srt
            except Exception:
                pass
            a0 = Axis(L0, nm)
            a0.attrs.update(ax.attrs)
            axes0.append(a0)
        a = DimArray(v0, axes=axes0)
        if a.values is not v0:
            return None
        _warm(a, True)
        for i, nm in enumerate(names):
            a.axes[i].name = nm                               # renamed in place, through the Axis objects
        # in-place route to the described state, through the public setters
        for i, ax in enumerate(axes):
            how = (i + ax.size) % 3
            if how == 0:
                a.axes[i][slice(None, None, 1)] = ax.values        # Axis.__setitem__
            elif how == 1:
                a.set_axis(ax.values, axis=i, inplace=True)
            else:
                lab = list(a.labels)
                lab[i] = ax.values
                a.labels = lab
        a.values[...] = vals
        ok = a.values is v0 and _same_state(a, axes, vals)
        if not ok:
            AGED["fallback"] += 1
            return None
        _warm(a, False)
        AGED["aged"] += 1
        return a
    except Exception:
        AGED["fallback"] += 1
        return None


def lean_axis(ad, toks):
    return {"name": ad["name"], "kind": ad["kind"], "labels": ad["labels"],
            "attrs": toks.enc(ad.get("attrs_py", {})) if toks else []}


def lean_array(ad, toks):
    return {"axes": [lean_axis(a, toks) for a in ad["axes"]], "vkind": ad.get("vkind", "f"),
            "attrs": toks.enc(ad.get("attrs_py", {})) if toks else [],
            "nan": sorted(int(i) for i in ad.get("nan_at", ())) if ad.get("vkind", "f") == "f" else []}


# --------------------------------------------------------------------------------------------
# observation
# --------------------------------------------------------------------------------------------

def obs_axis(ax, toks=None):
    if isinstance(ax, MultiAxis):
        return {"name": ax.name, "kind": "O", "labels": [],
                "members": [obs_axis(m, toks) for m in ax.axes],
                "attrs": toks.enc(ax.attrs) if toks else [],
                "tuples": [[str(x) for x in t] if isinstance(t, tuple) else [str(t)] for t in ax.values.tolist()]}
    vals = ax.values
    return {"name": ax.name, "kind": ckind(vals.dtype.kind), "labels": [enc_label(v) for v in vals.tolist()],
            "members": [], "attrs": toks.enc(ax.attrs) if toks else []}


def canon_value(v):
    """python/numpy scalar -> comparable canonical form"""
    if isinstance(v, np.ndarray) and v.ndim == 0:
        v = v[()]          # an object array may hold a 0-d array assigned to one of its cells
    if isinstance(v, np.generic):
        v = v.item()
    if v is None:
        return ["N"]
    if isinstance(v, (bool, np.bool_)):
        return ["b", bool(v)]
    if isinstance(v, (int, np.integer)):
        return ["n", int(v), 1]
    if isinstance(v, (float, np.floating)):
        f = float(v)
        if math.isnan(f):
            return ["nan"]
        if math.isinf(f):
            return ["inf", f > 0]
        fr = Fraction(f)
        return ["n", fr.numerator, fr.denominator]
    if isinstance(v, (str, np.str_)):
        return ["s", str(v)]
    if isinstance(v, tuple):
        return ["t", [canon_value(x) for x in v]]
    if isinstance(v, Fraction):
        return ["n", v.numerator, v.denominator]
    return ["s", "<%s:%r>" % (type(v).__name__, v)]


def obs_array(r, toks=None):
    """DimArray or scalar -> canonical observation"""
    if isinstance(r, DimArray):
        vals = np.asarray(r.values)
        return {"dims": list(r.dims), "axes": [obs_axis(ax, toks) for ax in r.axes],
                "shape": list(vals.shape), "vkind": ckind(vals.dtype.kind),
                "attrs": toks.enc(r.attrs) if toks else [],
                "values": [canon_value(v) for v in vals.reshape(-1).tolist()] if vals.dtype.kind != "O"
                          else [canon_value(v) for v in vals.reshape(-1)],
                "scalar": False}
    # numpy scalar / python scalar / 0-d array
    v = r
    if isinstance(r, np.ndarray) and r.ndim == 0:
        v = r[()]
    kind = ckind(np.asarray(v).dtype.kind) if not isinstance(v, str) else "O"
    return {"dims": [], "axes": [], "shape": [], "vkind": kind, "attrs": None,
            "values": [canon_value(v if not isinstance(v, np.generic) else v.item())], "scalar": True}


# --------------------------------------------------------------------------------------------
# evaluation of symbolic cells
# --------------------------------------------------------------------------------------------

class CellEnv:
    """what the symbolic cells refer to"""
    def __init__(self, inputs=(), fill=None, fill2=None, rhs=None, op=None, red=None, scan=None):
        self.inputs = [np.asarray(x) for x in inputs]
        self.flat = [x.reshape(-1) for x in self.inputs]
        self.fill, self.fill2 = fill, fill2
        self.rhs = None if rhs is None else np.asarray(rhs).reshape(-1)
        self.op, self.red, self.scan = op, red, scan

    def ev(self, c):
        t = c[0]
        if t == "src":
            return self.flat[c[1]][c[2]]
        if t == "nan":
            return np.nan
        if t == "fill":
            return self.fill
        if t == "fill2":
            return self.fill2
        if t == "rhs":
            return self.rhs[c[1] if self.rhs.size > 1 else 0]
        if t == "op":
            return self.op(self.ev(c[1]), self.ev(c[2]))
        if t == "red":
            return self.red(np.array([self.ev(x) for x in c[1]]))
        if t == "scan":
            return self.scan(np.array([self.ev(x) for x in c[1]]))[-1]
        if t == "sub":
            return self.ev(c[1]) - self.ev(c[2])
        if t == "lin":
            a, b = self.ev(c[1]), self.ev(c[2])
            w = Fraction(c[3], c[4])
            return a + float(w) * (b - a)
        if t == "lab":
            return dec_label(c[1])
        if t == "idx":
            return c[1]
        if t == "bool":
            return c[1]
        raise ValueError("unknown cell %r" % (c,))


def lean_obs_to_canon(ok, env, cast_kind=None):
    """evaluate the cells of a Lean observation into canonical values"""
    vals = [env.ev(c) for c in ok["cells"]]
    if cast_kind is not None:
        vals = cast_values(vals, cast_kind)
    out = dict(ok)
    out["values"] = [canon_value(v if not isinstance(v, np.generic) else v.item()) for v in vals]
    del out["cells"]
    return out


def cast_values(vals, kind):
    """NumPy's cast of assigned values to the array kind (its business, not the model's)"""
    dt = {"f": np.float64, "i": np.int64, "b": bool, "O": object}[kind]
    out = []
    for v in vals:
        try:
            out.append(np.array(v, dtype=dt)[()] if dt is not object else v)
        except Exception:
            out.append(v)
    return out


def diff_obs(impl, lean, keys=("dims", "shape", "axes", "values", "vkind", "attrs"), scalar_ok=True):
    """list of observable names on which two canonical observations differ"""
    bad = []
    if ("err" in impl) != ("err" in lean):
        return ["outcome"]
    if "err" in impl:
        return [] if impl["err"] == lean["err"] else ["errclass"]
    a, b = impl["ok"], lean["ok"]
    for k in keys:
        if k == "attrs" and (a.get("attrs") is None or b.get("attrs") is None):
            continue
        if k == "axes":
            if len(a["axes"]) != len(b["axes"]):
                bad.append("axes")
                continue
            for x, y in zip(a["axes"], b["axes"]):
                for f in ("name", "labels", "kind", "attrs"):
                    if f == "kind" and len(x["labels"]) == 0 and not x.get("members"):
                        # dtype kind of an empty label array is not part of any property
                        continue
                    if x.get(f) != y.get(f):
                        bad.append("axes." + f)
                xm = [(m["name"], m["labels"]) for m in x.get("members", [])]
                ym = [(m["name"], m["labels"]) for m in y.get("members", [])]
                if xm != ym:
                    bad.append("axes.members")
            continue
        if k == "vkind" and a.get("scalar"):
            continue
        if a.get(k) != b.get(k):
            bad.append(k)
    return sorted(set(bad))


# --------------------------------------------------------------------------------------------
# Lean: build, audit, driver
# --------------------------------------------------------------------------------------------

class InfraError(Exception):
    pass


def _lock():
    f = open(os.path.join(WORK, "lake.lock"), "w")
    fcntl.flock(f, fcntl.LOCK_EX)
    return f


def lake_build(targets=("DimModel",), timeout=3000):
    """build (no-op when up to date); returns (ok, log)"""
    lk = _lock()
    try:
        p = subprocess.run(["lake", "build"] + list(targets), cwd=LEAN, capture_output=True, text=True, timeout=timeout)
        return p.returncode == 0, p.stdout + p.stderr
    finally:
        lk.close()


FORBIDDEN = ["sorry", "admit", "native_decide", "bv_decide", "implemented_by", "unsafe ", "maxHeartbeats 0"]
STD_AXIOMS = {"propext", "Classical.choice", "Quot.sound"}


def grep_forbidden():
    """scan the Lean sources (comments stripped) for tokens that would weaken the trusted base"""
    import re
    hits = []
    for root, _, files in os.walk(os.path.join(LEAN, "DimModel")):
        for fn in files:
            if not fn.endswith(".lean"):
                continue
            src = open(os.path.join(root, fn)).read()
            src = re.sub(r"/-.*?-/", "", src, flags=re.S)
            src = re.sub(r"--[^\n]*", "", src)
            for ln, line in enumerate(src.split("\n"), 1):
                for tok in FORBIDDEN + ["\naxiom "]:
                    if tok.strip() and re.search(r"(^|\W)" + re.escape(tok.strip()) + r"(\W|$)", line):
                        if tok.strip() == "axiom" and not line.lstrip().startswith("axiom"):
                            continue
                        hits.append("%s:%d:%s" % (fn, ln, tok.strip()))
                if line.lstrip().startswith("axiom "):
                    hits.append("%s:%d:axiom" % (fn, ln))
    return hits


SWEEP_AXIOMS = """
open Lean Elab Command in
run_cmd do
  let env ← getEnv
  let some idx := env.getModuleIdx? `DimModel.Props.%s | throwError "no module"
  for n in env.header.moduleData[idx]!.constNames do
    if n.isInternalDetail then continue
    match env.find? n with
    | some (.thmInfo _) =>
      let axs ← liftCoreM (collectAxioms n)
      logInfo m!"AXSWEEP {n} {axs.toList}"
    | _ => pure ()
"""


def audit(prop_id, theorems):
    """`#print axioms` for every property theorem; returns dict name -> list of axioms or None"""
    os.makedirs(os.path.join(WORK, "audit"), exist_ok=True)
    path = os.path.join(WORK, "audit", "Audit_%s_%d.lean" % (prop_id, os.getpid()))
    with open(path, "w") as f:
        f.write("import Lean\nimport DimModel.Props.%s\nopen DimModel\n" % prop_id)
        for t in theorems:
            f.write("#print axioms %s\n" % t)
        # ... and of every theorem declared in the property's module, whether listed or not
        f.write(SWEEP_AXIOMS % prop_id)
    lk = _lock()
    try:
        p = subprocess.run(["lake", "env", "lean", path], cwd=LEAN, capture_output=True, text=True, timeout=1800)
    finally:
        lk.close()
    out = p.stdout + p.stderr
    res = {}
    import re
    # "'name' depends on axioms: [a, b]" or "'name' does not depend on any axioms"
    for m in re.finditer(r"'([^']+)' depends on axioms: \[([^\]]*)\]", out, flags=re.S):
        res[m.group(1)] = [x.strip() for x in m.group(2).replace("\n", " ").split(",") if x.strip()]
    for m in re.finditer(r"'([^']+)' does not depend on any axioms", out):
        res[m.group(1)] = []
    for m in re.finditer(r"AXSWEEP (\S+) \[([^\]]*)\]", out):
        res.setdefault(m.group(1), [x.strip() for x in m.group(2).split(",") if x.strip()])
    os.unlink(path)
    return res, out, p.returncode


def run_driver(requests, tag="drv", timeout=3000):
    """pipe requests (list of dicts) through the Lean driver; returns list of answers by id order"""
    if not requests:
        return []
    inp = os.path.join(WORK, "%s_%d.in.jsonl" % (tag, os.getpid()))
    with open(inp, "w") as f:
        for r in requests:
            f.write(json.dumps(r, separators=(",", ":")) + "\n")
    with open(inp) as fin:
        p = subprocess.run(["lake", "env", "lean", "--run", "Driver.lean"], cwd=LEAN, stdin=fin,
                           capture_output=True, text=True, timeout=timeout)
    if p.returncode != 0:
        raise InfraError("driver failed: " + (p.stderr or p.stdout)[-2000:])
    lines = [l for l in p.stdout.split("\n") if l.strip()]
    if len(lines) != len(requests):
        raise InfraError("driver answered %d lines for %d requests: %s" % (len(lines), len(requests), p.stderr[-500:]))
    os.unlink(inp)
    out = [json.loads(l) for l in lines]
    for a in out:
        if "fatal" in a:
            raise InfraError("driver: %s" % a)
    return out


# --------------------------------------------------------------------------------------------
# evidence / findings / replays
# --------------------------------------------------------------------------------------------

def load_findings():
    p = os.path.join(VERIF, "known_findings.json")
    if not os.path.exists(p):
        return []
    return json.load(open(p))["findings"]


def validate_evidence(path):
    schema = "/root/.vp/EVIDENCE.schema.json"
    if not os.path.exists(schema):
        schema = os.path.join(VERIF, "harness", "EVIDENCE.schema.json")
    try:
        p = subprocess.run(["python3-vt", "-c",
                            "import json,sys,jsonschema; jsonschema.validate(json.load(open(sys.argv[1])), json.load(open(sys.argv[2])))",
                            path, schema], capture_output=True, text=True, timeout=60)
        if p.returncode != 0:
            return False, p.stderr[-800:]
        return True, ""
    except FileNotFoundError:
        ev = json.load(open(path))
        for k in ("property_id", "tier", "seed", "level", "coverage", "wall_s"):
            if k not in ev:
                return False, "missing " + k
        return True, "structural check only"


def source_hash(objs):
    """hash of the source text of the mirrored library functions (mirror drift note)"""
    out = {}
    for name, o in objs.items():
        try:
            out[name] = hashlib.sha256(inspect.getsource(o).encode()).hexdigest()[:12]
        except Exception as e:
            out[name] = "unavailable"
    return out


# --------------------------------------------------------------------------------------------
# tables regenerated from the implementation (finite decision logic proved by `decide`)
# --------------------------------------------------------------------------------------------
import atexit
_restore = {}


def write_table(name, content):
    """write lean/DimModel/Gen/<name>.lean; returns True when it differs from the committed text.
    The committed text is restored at exit so that the tree (and other checks) stay buildable."""
    path = os.path.join(LEAN, "DimModel", "Gen", name + ".lean")
    old = open(path).read() if os.path.exists(path) else None
    if old == content:
        return False
    if path not in _restore:
        _restore[path] = old
    with open(path, "w") as f:
        f.write(content)
    return True


def _restore_tables():
    for path, old in _restore.items():
        if old is None:
            continue
        with open(path, "w") as f:
            f.write(old)


atexit.register(_restore_tables)

KINDS = ["b", "i", "u", "f", "O", "U", "S"]


def lean_kind(k):
    return ".%s" % k

"""Shared machinery of the dimarray verification harness.

* canonical encoding of labels / axes / arrays (exact rationals for numbers)
* construction of real `dimarray` objects from case descriptions and observation of results
* evaluation of the symbolic cells the Lean driver answers with
* running the Lean driver (line protocol), building the lake project, auditing axioms
* evidence, replays, known findings, VIOLATION / KNOWN-FINDING lines

Run with /venv/bin/python; the tree under test is $VERIF_REPO (default /repo) and is put first
on sys.path so that the *working tree* is what gets imported.
"""
import os, sys, json, time, math, random, subprocess, fcntl, hashlib, traceback, warnings, inspect
from fractions import Fraction

VERIF = os.path.dirname(os.path.dirname(os.path.abspath(__file__)))
REPO = os.environ.get("VERIF_REPO", "/repo")
WORK = os.path.join(VERIF, ".work")
LEAN = os.path.join(VERIF, "lean")
os.makedirs(WORK, exist_ok=True)

# hooks guard (MANIFEST.hooks.guard); no source hook is needed today, the name is reserved
os.environ.setdefault("DIMARRAY_VERIF", "1")

if sys.path[0] != REPO:
    sys.path.insert(0, REPO)
# vendored stand-in for the netCDF4 package (absent from the sandbox)
_standin = os.path.join(VERIF, "harness", "netCDF4_standin")
if os.path.isdir(_standin) and _standin not in sys.path:
    sys.path.insert(1, _standin)
sys.setrecursionlimit(400)       # F5-style infinite recursions must fail fast
warnings.simplefilter("ignore")

import numpy as np
import dimarray as da
from dimarray import DimArray, Dataset, Axis
from dimarray.core.axes import MultiAxis, Axes

assert os.path.realpath(os.path.dirname(os.path.dirname(da.__file__))) == os.path.realpath(REPO), \
    "dimarray was not imported from the tree under test: %s" % da.__file__

# --------------------------------------------------------------------------------------------
# canonical encodings
# --------------------------------------------------------------------------------------------

def enc_label(v):
    """label -> JSON-able exact encoding"""
    if v is None:
        return ["N"]
    if isinstance(v, (bool, np.bool_)):
        return ["n", int(v), 1]
    if isinstance(v, (int, np.integer)):
        return ["n", int(v), 1]
    if isinstance(v, (float, np.floating)):
        if math.isnan(v) or math.isinf(v):
            return ["s", "<%r>" % float(v)]
        fr = Fraction(float(v))
        return ["n", fr.numerator, fr.denominator]
    if isinstance(v, (str, np.str_)):
        return ["s", str(v)]
    if isinstance(v, Fraction):
        return ["n", v.numerator, v.denominator]
    if isinstance(v, tuple):
        return ["t", [enc_label(x) for x in v]]
    return ["s", "<%s:%r>" % (type(v).__name__, v)]


def dec_label(e, kind="f"):
    """encoded label -> python value suitable for the given axis kind"""
    if e[0] == "N":
        return None
    if e[0] == "s":
        return e[1]
    if e[0] == "n":
        fr = Fraction(e[1], e[2])
        if kind == "i" and fr.denominator == 1:
            return int(fr)
        if kind == "f":
            return float(fr)
        if fr.denominator == 1:
            return int(fr)
        return float(fr)
    raise ValueError(e)


def ckind(k):
    """dtype kind as the model knows it (unsigned integers are integers)"""
    return "i" if k == "u" else k


def label_array(labels, kind, ldtype=None):
    """encoded labels -> numpy array of the given kind (never through the list constructor of
    DimArray, see env gotchas); `ldtype` asks for a narrower / unsigned dtype of the same kind when every
    label is exactly representable in it"""
    vals = [dec_label(l, kind) for l in labels]
    if kind == "i" and any(isinstance(v, float) for v in vals):
        kind = "f"          # a non-integral request next to integer labels: never truncated by the harness
    if kind == "i":
        out = np.array(vals, dtype=np.int64).reshape(len(vals))
        if ldtype and ldtype.startswith(("uint", "int")) and len(vals):
            info = np.iinfo(ldtype)
            if out.min() >= info.min and out.max() <= info.max:
                out = out.astype(ldtype)
        return out
    if kind == "f":
        out = np.array(vals, dtype=np.float64).reshape(len(vals))
        if ldtype == "float32" and len(vals) and np.all(out.astype(np.float32).astype(np.float64) == out):
            out = out.astype(np.float32)
        return out
    out = np.empty(len(vals), dtype=object)
    for i, v in enumerate(vals):
        out[i] = v
    return out


class AttrTokens:
    """metadata values are opaque tokens for the model"""
    def __init__(self):
        self.ids = {}
        self.vals = []

    def tok(self, v):
        # a stable token per value (independent of the order in which values are met)
        import zlib
        return zlib.crc32(repr(_attr_key(v)).encode())

    def enc(self, attrs):
        return [[str(k), self.tok(v)] for k, v in attrs.items()]


def _attr_key(v):
    if isinstance(v, np.ndarray):
        return ("nd", str(v.dtype), v.shape, tuple(v.ravel().tolist()))
    if isinstance(v, (list, tuple)):
        return (type(v).__name__, tuple(_attr_key(x) for x in v))
    if isinstance(v, dict):
        return ("dict", tuple(sorted((str(k), _attr_key(x)) for k, x in v.items())))
    if isinstance(v, float) and math.isnan(v):
        return ("nan",)
    return (type(v).__name__, repr(v))


EXC = [(IndexError, "index"), (KeyError, "key"), (ValueError, "value"), (TypeError, "type"),
       (AttributeError, "attribute"), (AssertionError, "assertion"), (RecursionError, "recursion")]


def exc_class(e):
    for cls, name in EXC:
        if isinstance(e, cls):
            return name
    return "other"


def guarded(fn):
    """run fn, map an exception to its class"""
    try:
        return {"ok": fn()}
    except RecursionError as e:
        return {"err": "recursion", "msg": "RecursionError"}
    except Exception as e:  # noqa
        return {"err": exc_class(e), "msg": "%s: %s" % (type(e).__name__, str(e)[:200])}


# --------------------------------------------------------------------------------------------
# building real objects
# --------------------------------------------------------------------------------------------

def make_values(shape, vkind, k=0, nan_at=()):
    """distinct values per cell so that 'which element went where' is observable"""
    n = int(np.prod(shape)) if len(shape) else 1
    if vkind == "f":
        v = (np.arange(n, dtype=np.float64) + 1.0) + 1000.0 * k + 0.25
        for i in nan_at:
            if i < n:
                v[i] = np.nan
    elif vkind == "i":
        v = np.arange(n, dtype=np.int64) + 1 + 1000 * k
    elif vkind == "b":
        v = (np.arange(n) % 2 == 0)
    elif vkind == "O":
        v = np.empty(n, dtype=object)
        for i in range(n):
            v[i] = "v%d_%d" % (k, i)
    else:
        raise ValueError(vkind)
    return v.reshape(shape)


def build_axis(ad, toks=None):
    ax = Axis(label_array(ad["labels"], ad["kind"], ad.get("ldtype")), ad["name"])
    for kv in ad.get("attrs_py", {}).items():
        ax.attrs[kv[0]] = kv[1]
    return ax


def build_array(ad, k=0, toks=None):
    """case description -> real DimArray (values are distinct per cell)"""
    axes = [build_axis(a) for a in ad["axes"]]
    shape = tuple(len(a["labels"]) for a in ad["axes"])
    vals = make_values(shape, ad.get("vkind", "f"), k, ad.get("nan_at", ()))
    if "values" in ad:
        vals = np.array(ad["values"], dtype={"f": float, "i": np.int64, "b": bool, "O": object}[ad.get("vkind", "f")]).reshape(shape)
    if ad.get("inf_at") and vals.dtype.kind == "f":
        for i, sgn in ad["inf_at"]:
            if i < vals.size:
                vals.reshape(-1)[i] = np.inf if sgn > 0 else -np.inf     # infinite (not missing) values
    if ad.get("vbase") and vals.dtype.kind == "i":
        vals = vals + int(ad["vbase"])          # large integers (not representable in single precision)
    vd = ad.get("vdtype")
    if vd and vals.dtype.kind in "if" and np.dtype(vd).kind == vals.dtype.kind and np.all(vals.astype(vd).astype(vals.dtype) == vals, where=~np.isnan(vals) if vals.dtype.kind == "f" else True):
        vals = vals.astype(vd)          # narrower dtype of the same kind (every value exactly representable)
    if ad.get("order") == "F" and vals.ndim >= 2:
        vals = np.asfortranarray(vals)  # Fortran-contiguous memory layout, same logical array
    a = DimArray(vals, axes=axes)
    for key, v in ad.get("attrs_py", {}).items():
        a.attrs[key] = v
    return a


def lean_axis(ad, toks):
    return {"name": ad["name"], "kind": ad["kind"], "labels": ad["labels"],
            "attrs": toks.enc(ad.get("attrs_py", {})) if toks else []}


def lean_array(ad, toks):
    return {"axes": [lean_axis(a, toks) for a in ad["axes"]], "vkind": ad.get("vkind", "f"),
            "attrs": toks.enc(ad.get("attrs_py", {})) if toks else [],
            "nan": sorted(int(i) for i in ad.get("nan_at", ())) if ad.get("vkind", "f") == "f" else []}


# --------------------------------------------------------------------------------------------
# observation
# --------------------------------------------------------------------------------------------

def obs_axis(ax, toks=None):
    if isinstance(ax, MultiAxis):
        return {"name": ax.name, "kind": "O", "labels": [],
                "members": [obs_axis(m, toks) for m in ax.axes],
                "attrs": toks.enc(ax.attrs) if toks else [],
                "tuples": [[str(x) for x in t] if isinstance(t, tuple) else [str(t)] for t in ax.values.tolist()]}
    vals = ax.values
    return {"name": ax.name, "kind": ckind(vals.dtype.kind), "labels": [enc_label(v) for v in vals.tolist()],
            "members": [], "attrs": toks.enc(ax.attrs) if toks else []}


def canon_value(v):
    """python/numpy scalar -> comparable canonical form"""
    if isinstance(v, np.ndarray) and v.ndim == 0:
        v = v[()]          # an object array may hold a 0-d array assigned to one of its cells
    if isinstance(v, np.generic):
        v = v.item()
    if v is None:
        return ["N"]
    if isinstance(v, (bool, np.bool_)):
        return ["b", bool(v)]
    if isinstance(v, (int, np.integer)):
        return ["n", int(v), 1]
    if isinstance(v, (float, np.floating)):
        f = float(v)
        if math.isnan(f):
            return ["nan"]
        if math.isinf(f):
            return ["inf", f > 0]
        fr = Fraction(f)
        return ["n", fr.numerator, fr.denominator]
    if isinstance(v, (str, np.str_)):
        return ["s", str(v)]
    if isinstance(v, tuple):
        return ["t", [canon_value(x) for x in v]]
    if isinstance(v, Fraction):
        return ["n", v.numerator, v.denominator]
    return ["s", "<%s:%r>" % (type(v).__name__, v)]


def obs_array(r, toks=None):
    """DimArray or scalar -> canonical observation"""
    if isinstance(r, DimArray):
        vals = np.asarray(r.values)
        return {"dims": list(r.dims), "axes": [obs_axis(ax, toks) for ax in r.axes],
                "shape": list(vals.shape), "vkind": ckind(vals.dtype.kind),
                "attrs": toks.enc(r.attrs) if toks else [],
                "values": [canon_value(v) for v in vals.reshape(-1).tolist()] if vals.dtype.kind != "O"
                          else [canon_value(v) for v in vals.reshape(-1)],
                "scalar": False}
    # numpy scalar / python scalar / 0-d array
    v = r
    if isinstance(r, np.ndarray) and r.ndim == 0:
        v = r[()]
    kind = ckind(np.asarray(v).dtype.kind) if not isinstance(v, str) else "O"
    return {"dims": [], "axes": [], "shape": [], "vkind": kind, "attrs": None,
            "values": [canon_value(v if not isinstance(v, np.generic) else v.item())], "scalar": True}


# --------------------------------------------------------------------------------------------
# evaluation of symbolic cells
# --------------------------------------------------------------------------------------------

class CellEnv:
    """what the symbolic cells refer to"""
    def __init__(self, inputs=(), fill=None, fill2=None, rhs=None, op=None, red=None, scan=None):
        self.inputs = [np.asarray(x) for x in inputs]
        self.flat = [x.reshape(-1) for x in self.inputs]
        self.fill, self.fill2 = fill, fill2
        self.rhs = None if rhs is None else np.asarray(rhs).reshape(-1)
        self.op, self.red, self.scan = op, red, scan

    def ev(self, c):
        t = c[0]
        if t == "src":
            return self.flat[c[1]][c[2]]
        if t == "nan":
            return np.nan
        if t == "fill":
            return self.fill
        if t == "fill2":
            return self.fill2
        if t == "rhs":
            return self.rhs[c[1] if self.rhs.size > 1 else 0]
        if t == "op":
            return self.op(self.ev(c[1]), self.ev(c[2]))
        if t == "red":
            return self.red(np.array([self.ev(x) for x in c[1]]))
        if t == "scan":
            return self.scan(np.array([self.ev(x) for x in c[1]]))[-1]
        if t == "sub":
            return self.ev(c[1]) - self.ev(c[2])
        if t == "lin":
            a, b = self.ev(c[1]), self.ev(c[2])
            w = Fraction(c[3], c[4])
            return a + float(w) * (b - a)
        if t == "lab":
            return dec_label(c[1])
        if t == "idx":
            return c[1]
        if t == "bool":
            return c[1]
        raise ValueError("unknown cell %r" % (c,))


def lean_obs_to_canon(ok, env, cast_kind=None):
    """evaluate the cells of a Lean observation into canonical values"""
    vals = [env.ev(c) for c in ok["cells"]]
    if cast_kind is not None:
        vals = cast_values(vals, cast_kind)
    out = dict(ok)
    out["values"] = [canon_value(v if not isinstance(v, np.generic) else v.item()) for v in vals]
    del out["cells"]
    return out


def cast_values(vals, kind):
    """NumPy's cast of assigned values to the array kind (its business, not the model's)"""
    dt = {"f": np.float64, "i": np.int64, "b": bool, "O": object}[kind]
    out = []
    for v in vals:
        try:
            out.append(np.array(v, dtype=dt)[()] if dt is not object else v)
        except Exception:
            out.append(v)
    return out


def diff_obs(impl, lean, keys=("dims", "shape", "axes", "values", "vkind", "attrs"), scalar_ok=True):
    """list of observable names on which two canonical observations differ"""
    bad = []
    if ("err" in impl) != ("err" in lean):
        return ["outcome"]
    if "err" in impl:
        return [] if impl["err"] == lean["err"] else ["errclass"]
    a, b = impl["ok"], lean["ok"]
    for k in keys:
        if k == "attrs" and (a.get("attrs") is None or b.get("attrs") is None):
            continue
        if k == "axes":
            if len(a["axes"]) != len(b["axes"]):
                bad.append("axes")
                continue
            for x, y in zip(a["axes"], b["axes"]):
                for f in ("name", "labels", "kind", "attrs"):
                    if f == "kind" and len(x["labels"]) == 0 and not x.get("members"):
                        # dtype kind of an empty label array is not part of any property
                        continue
                    if x.get(f) != y.get(f):
                        bad.append("axes." + f)
                xm = [(m["name"], m["labels"]) for m in x.get("members", [])]
                ym = [(m["name"], m["labels"]) for m in y.get("members", [])]
                if xm != ym:
                    bad.append("axes.members")
            continue
        if k == "vkind" and a.get("scalar"):
            continue
        if a.get(k) != b.get(k):
            bad.append(k)
    return sorted(set(bad))


# --------------------------------------------------------------------------------------------
# Lean: build, audit, driver
# --------------------------------------------------------------------------------------------

class InfraError(Exception):
    pass


def _lock():
    f = open(os.path.join(WORK, "lake.lock"), "w")
    fcntl.flock(f, fcntl.LOCK_EX)
    return f


def lake_build(targets=("DimModel",), timeout=3000):
    """build (no-op when up to date); returns (ok, log)"""
    lk = _lock()
    try:
        p = subprocess.run(["lake", "build"] + list(targets), cwd=LEAN, capture_output=True, text=True, timeout=timeout)
        return p.returncode == 0, p.stdout + p.stderr
    finally:
        lk.close()


FORBIDDEN = ["sorry", "admit", "native_decide", "bv_decide", "implemented_by", "unsafe ", "maxHeartbeats 0"]
STD_AXIOMS = {"propext", "Classical.choice", "Quot.sound"}


def grep_forbidden():
    """scan the Lean sources (comments stripped) for tokens that would weaken the trusted base"""
    import re
    hits = []
    for root, _, files in os.walk(os.path.join(LEAN, "DimModel")):
        for fn in files:
            if not fn.endswith(".lean"):
                continue
            src = open(os.path.join(root, fn)).read()
            src = re.sub(r"/-.*?-/", "", src, flags=re.S)
            src = re.sub(r"--[^\n]*", "", src)
            for ln, line in enumerate(src.split("\n"), 1):
                for tok in FORBIDDEN + ["\naxiom "]:
                    if tok.strip() and re.search(r"(^|\W)" + re.escape(tok.strip()) + r"(\W|$)", line):
                        if tok.strip() == "axiom" and not line.lstrip().startswith("axiom"):
                            continue
                        hits.append("%s:%d:%s" % (fn, ln, tok.strip()))
                if line.lstrip().startswith("axiom "):
                    hits.append("%s:%d:axiom" % (fn, ln))
    return hits


SWEEP_AXIOMS = """
open Lean Elab Command in
run_cmd do
  let env ← getEnv
  let some idx := env.getModuleIdx? `DimModel.Props.%s | throwError "no module"
  for n in env.header.moduleData[idx]!.constNames do
    if n.isInternalDetail then continue
    match env.find? n with
    | some (.thmInfo _) =>
      let axs ← liftCoreM (collectAxioms n)
      logInfo m!"AXSWEEP {n} {axs.toList}"
    | _ => pure ()
"""


def audit(prop_id, theorems):
    """`#print axioms` for every property theorem; returns dict name -> list of axioms or None"""
    os.makedirs(os.path.join(WORK, "audit"), exist_ok=True)
    path = os.path.join(WORK, "audit", "Audit_%s_%d.lean" % (prop_id, os.getpid()))
    with open(path, "w") as f:
        f.write("import Lean\nimport DimModel.Props.%s\nopen DimModel\n" % prop_id)
        for t in theorems:
            f.write("#print axioms %s\n" % t)
        # ... and of every theorem declared in the property's module, whether listed or not
        f.write(SWEEP_AXIOMS % prop_id)
    lk = _lock()
    try:
        p = subprocess.run(["lake", "env", "lean", path], cwd=LEAN, capture_output=True, text=True, timeout=1800)
    finally:
        lk.close()
    out = p.stdout + p.stderr
    res = {}
    import re
    # "'name' depends on axioms: [a, b]" or "'name' does not depend on any axioms"
    for m in re.finditer(r"'([^']+)' depends on axioms: \[([^\]]*)\]", out, flags=re.S):
        res[m.group(1)] = [x.strip() for x in m.group(2).replace("\n", " ").split(",") if x.strip()]
    for m in re.finditer(r"'([^']+)' does not depend on any axioms", out):
        res[m.group(1)] = []
    for m in re.finditer(r"AXSWEEP (\S+) \[([^\]]*)\]", out):
        res.setdefault(m.group(1), [x.strip() for x in m.group(2).split(",") if x.strip()])
    os.unlink(path)
    return res, out, p.returncode


def run_driver(requests, tag="drv", timeout=3000):
    """pipe requests (list of dicts) through the Lean driver; returns list of answers by id order"""
    if not requests:
        return []
    inp = os.path.join(WORK, "%s_%d.in.jsonl" % (tag, os.getpid()))
    with open(inp, "w") as f:
        for r in requests:
            f.write(json.dumps(r, separators=(",", ":")) + "\n")
    with open(inp) as fin:
        p = subprocess.run(["lake", "env", "lean", "--run", "Driver.lean"], cwd=LEAN, stdin=fin,
                           capture_output=True, text=True, timeout=timeout)
    if p.returncode != 0:
        raise InfraError("driver failed: " + (p.stderr or p.stdout)[-2000:])
    lines = [l for l in p.stdout.split("\n") if l.strip()]
    if len(lines) != len(requests):
        raise InfraError("driver answered %d lines for %d requests: %s" % (len(lines), len(requests), p.stderr[-500:]))
    os.unlink(inp)
    out = [json.loads(l) for l in lines]
    for a in out:
        if "fatal" in a:
            raise InfraError("driver: %s" % a)
    return out


# --------------------------------------------------------------------------------------------
# evidence / findings / replays
# --------------------------------------------------------------------------------------------

def load_findings():
    p = os.path.join(VERIF, "known_findings.json")
    if not os.path.exists(p):
        return []
    return json.load(open(p))["findings"]


def validate_evidence(path):
    schema = "/root/.vp/EVIDENCE.schema.json"
    if not os.path.exists(schema):
        schema = os.path.join(VERIF, "harness", "EVIDENCE.schema.json")
    try:
        p = subprocess.run(["python3-vt", "-c",
                            "import json,sys,jsonschema; jsonschema.validate(json.load(open(sys.argv[1])), json.load(open(sys.argv[2])))",
                            path, schema], capture_output=True, text=True, timeout=60)
        if p.returncode != 0:
            return False, p.stderr[-800:]
        return True, ""
    except FileNotFoundError:
        ev = json.load(open(path))
        for k in ("property_id", "tier", "seed", "level", "coverage", "wall_s"):
            if k not in ev:
                return False, "missing " + k
        return True, "structural check only"


def source_hash(objs):
    """hash of the source text of the mirrored library functions (mirror drift note)"""
    out = {}
    for name, o in objs.items():
        try:
            out[name] = hashlib.sha256(inspect.getsource(o).encode()).hexdigest()[:12]
        except Exception as e:
            out[name] = "unavailable"
    return out


# --------------------------------------------------------------------------------------------
# tables regenerated from the implementation (finite decision logic proved by `decide`)
# --------------------------------------------------------------------------------------------
import atexit
_restore = {}


def write_table(name, content):
    """write lean/DimModel/Gen/<name>.lean; returns True when it differs from the committed text.
    The committed text is restored at exit so that the tree (and other checks) stay buildable."""
    path = os.path.join(LEAN, "DimModel", "Gen", name + ".lean")
    old = open(path).read() if os.path.exists(path) else None
    if old == content:
        return False
    if path not in _restore:
        _restore[path] = old
    with open(path, "w") as f:
        f.write(content)
    return True


def _restore_tables():
    for path, old in _restore.items():
        if old is None:
            continue
        with open(path, "w") as f:
            f.write(old)


atexit.register(_restore_tables)

KINDS = ["b", "i", "u", "f", "O", "U", "S"]


def lean_kind(k):
    return ".%s" % k
